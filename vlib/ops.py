"""Operation catalogue for lane L: argument generators and runners.

    op = gen_op(rng, T, v, cfg, families=None)    -> JSON-able {"op": name, ...args}
    outcome = run_op(b, h, op)                     -> Outcome

An Outcome is ("value", model value, type string or None, result descriptor or None)
or ("error", kind, message).  Nothing here knows what an operation *means*; oracles live in
vlib/oracle_*.py.
"""
from __future__ import print_function

import json

import numpy as np

from vlib import model, gen
from vlib.bridge import AkError

REDUCERS = ["count", "count_nonzero", "sum", "prod", "any", "all", "min", "max", "argmin", "argmax"]

FAMILIES = {
    "slice": ["getitem", "getitem_at", "getitem_range", "getitem_field", "getitem_fields", "carry"],
    "structure": ["num", "flatten", "localindex"],
    "reduce": ["reduce"],
    "sort": ["sort", "argsort"],
    "combinations": ["combinations"],
    "pad": ["rpad", "fillna"],
    "merge": ["mergemany"],
    "simplify": ["shallow_simplify", "simplify_optiontype", "simplify_uniontype", "project", "bytemask",
                 "toIndexedOptionArray64", "toByteMaskedArray", "toListOffsetArray64", "compact_offsets64",
                 "toRegularArray"],
    "astype": ["numbers_to_type"],
    "unique": ["is_unique"],
    "convert": ["tojson", "tostring", "typestr", "form", "validityerror", "deep_copy"],
    "queries": ["depths"],
}
ALL_FAMILIES = list(FAMILIES)


class Outcome(object):
    __slots__ = ("kind", "value", "type", "desc", "err", "msg", "handle", "lazy_len")

    def __init__(self, kind, value=None, type=None, desc=None, err=None, msg=None, handle=None):
        self.kind, self.value, self.type, self.desc, self.err, self.msg, self.handle = \
            kind, value, type, desc, err, msg, handle
        self.lazy_len = None      # (length a lazy result announced, length of its materialisation)

    def brief(self):
        if self.kind == "value":
            return {"value": model.brief(self.value, 400), "type": self.type}
        return {"error": self.err, "msg": (self.msg or "")[:300]}


# ------------------------------------------------------------------ helpers on model values

def levels(v, depth=0, out=None):
    """list lengths seen at each depth of a nested value (lists only)"""
    out = {} if out is None else out
    if isinstance(v, list):
        out.setdefault(depth, []).append(len(v))
        for x in v:
            levels(x, depth + 1, out)
    return out


def first_record_keys(v):
    if isinstance(v, dict):
        return list(v.keys())
    if isinstance(v, (list, tuple)):
        for x in v:
            k = first_record_keys(x)
            if k:
                return k
    return None


def type_keys(T):
    """keys of the first record type found at or below T through lists/options"""
    t = T["t"]
    if t == "record":
        return T["keys"] if T["keys"] is not None else [str(i) for i in range(len(T["fields"]))]
    if t in ("list", "regular", "option"):
        return type_keys(T["e"])
    return None


# ------------------------------------------------------------------ argument generators

def gen_axis(rng, T, wild=0.15):
    lo, hi = gen.depth_of(T)
    if rng.random() < wild:
        return rng.choice([hi, hi + 1, -hi - 1, -hi - 2, 7, -7])
    if rng.random() < 0.5:
        return rng.randint(0, hi - 1)
    return -rng.randint(1, hi)


def gen_int_index(rng, n, wild=0.12):
    if n == 0 or rng.random() < wild:
        return rng.choice([n, n + 1, -n - 1, -n - 2, 0, -1])
    return rng.randint(-n, n - 1)


def gen_range(rng, n):
    def bound():
        r = rng.random()
        if r < 0.3:
            return None
        if r < 0.85:
            return rng.randint(-n - 1, n + 1)
        return rng.choice([n + 5, -n - 5, 2 ** 40, -2 ** 40])
    step = rng.choice([None, None, 1, 1, 2, 3, -1, -1, -2, -3, 2 ** 33, -2 ** 33])
    return {"t": "range", "start": bound(), "stop": bound(), "step": step}


def gen_slice_items(rng, T, v, cfg, maxitems=3):
    """slice tuple descriptor (list of items), biased to things that apply"""
    n = len(v)
    lv = levels(v)
    hi = gen.depth_of(T)[1]
    items = []
    k = rng.choice([1, 1, 1, 2, 2, 3][:max(1, 2 * maxitems)])
    dim = 0
    used_ellipsis = False
    advanced = 0
    keys = type_keys(T)
    for pos in range(k):
        lens = lv.get(dim, [0])
        m = min(lens) if lens else 0
        size = lens[0] if lens else 0
        r = rng.random()
        if r < 0.22:
            items.append({"t": "at", "i": gen_int_index(rng, m if dim > 0 else n)})
            dim += 1
        elif r < 0.45:
            items.append(gen_range(rng, size if dim == 0 else max(lens)))
            dim += 1
        elif r < 0.50 and not used_ellipsis:
            items.append({"t": "ellipsis"})
            used_ellipsis = True
            dim = hi
        elif r < 0.55:
            items.append({"t": "newaxis"})
        elif r < 0.72:
            mm = n if dim == 0 else m
            cnt = rng.choice([0, 1, 2, 3, 4])
            if advanced and rng.random() < 0.7:
                cnt = advanced
            data = [gen_int_index(rng, mm, wild=0.05) for _ in range(cnt)]
            if rng.random() < 0.15 and cnt >= 2:
                data = [data[:cnt // 2], data[:cnt // 2]] if cnt // 2 else [data]
            items.append({"t": "array", "data": data})
            advanced = advanced or cnt
            dim += 1
        elif r < 0.80:
            mm = n if dim == 0 else (size if len(set(lens)) == 1 else m)
            data = [rng.random() < 0.5 for _ in range(mm)]
            items.append({"t": "array", "data": data, "bool": True})
            dim += 1
        elif r < 0.86 and keys:
            if rng.random() < 0.6:
                items.append({"t": "field", "key": rng.choice(keys + ["nope"] if rng.random() < 0.1 else keys)})
            else:
                items.append({"t": "fields", "keys": rng.sample(keys, rng.randint(1, len(keys)))})
        elif r < 0.93 and dim == 0:
            # missing-value index array (IndexedOptionArray of ints) through Content::asslice
            cnt = rng.choice([1, 2, 3, 4])
            vals = [None if rng.random() < 0.3 else gen_int_index(rng, n, wild=0.05) for _ in range(cnt)]
            items.append({"t": "content", "layout": gen.encode(rng, {"t": "option", "e": gen.P("int64")}, vals,
                                                               "canonical"), "missing": vals})
            dim += 1
        elif dim == 0 and hi >= 2 and isinstance(v, list) and all(isinstance(x, list) for x in v):
            # jagged index: one sub-index per list
            jag = []
            usebool = rng.random() < 0.4
            for x in v:
                if usebool:
                    jag.append([rng.random() < 0.5 for _ in x])
                else:
                    jag.append([gen_int_index(rng, len(x), wild=0.03) for _ in range(rng.randint(0, 3))] if len(x) else [])
            Tj = {"t": "list", "e": gen.P("bool" if usebool else "int64")}
            items.append({"t": "content", "layout": gen.encode(rng, Tj, jag, "canonical"), "jagged": jag})
            dim += 2
        else:
            items.append({"t": "at", "i": gen_int_index(rng, m if dim > 0 else n)})
            dim += 1
    return items


def _size(v):
    if isinstance(v, (list, tuple)):
        return 1 + sum(_size(x) for x in v)
    if isinstance(v, dict):
        return 1 + sum(_size(x) for x in v.values())
    return 1


def gen_op(rng, T, v, cfg, families=None):
    fams = families or ALL_FAMILIES
    fam = rng.choice(fams)
    if fam == "combinations" and _size(v) > 150:      # keep chained combinations from exploding
        fam = "structure"
    name = rng.choice(FAMILIES[fam])
    n = len(v)
    op = {"op": name}
    if name == "getitem":
        op["items"] = gen_slice_items(rng, T, v, cfg)
    elif name == "getitem_at":
        op["i"] = gen_int_index(rng, n)
    elif name == "getitem_range":
        op["start"], op["stop"] = rng.randint(-n - 2, n + 2), rng.randint(-n - 2, n + 2)
    elif name == "getitem_field":
        keys = type_keys(T)
        op["key"] = rng.choice(keys) if keys and rng.random() < 0.9 else "nope"
    elif name == "getitem_fields":
        keys = type_keys(T)
        op["keys"] = rng.sample(keys, rng.randint(1, len(keys))) if keys else ["nope"]
    elif name == "carry":
        op["index"] = [rng.randint(0, n - 1) for _ in range(rng.randint(0, 5))] if n else []
    elif name in ("num", "flatten", "localindex"):
        op["axis"] = gen_axis(rng, T)
    elif name == "reduce":
        op["name"] = rng.choice(REDUCERS)
        op["axis"] = gen_axis(rng, T, wild=0.08)
        op["mask"] = rng.random() < 0.5
        op["keepdims"] = rng.random() < 0.3
    elif name in ("sort", "argsort"):
        op["axis"] = gen_axis(rng, T, wild=0.08)
        op["ascending"] = rng.random() < 0.6
        op["stable"] = rng.random() < 0.5
    elif name == "combinations":
        op["n"] = rng.choice([1, 2, 2, 2, 3, 3, 4])
        op["replacement"] = rng.random() < 0.4
        op["axis"] = gen_axis(rng, T, wild=0.08)
        op["keys"] = None
        if rng.random() < 0.2:
            op["keys"] = ["k%d" % i for i in range(op["n"])]
    elif name == "rpad":
        op["target"] = rng.choice([0, 1, 2, 3, 5])
        op["axis"] = gen_axis(rng, T, wild=0.08)
        op["clip"] = rng.random() < 0.5
    elif name == "fillna":
        op["value"] = rng.choice([0, -1, 3.5, 99])
    elif name == "mergemany":
        k = rng.choice([1, 1, 2, 3])
        others = []
        for _ in range(k):
            r = rng.random()
            if r < 0.5:
                T2 = T
                if not gen._can_gen(T2):
                    T2 = None
            elif r < 0.6:
                T2 = {"t": "unknown"}
            else:
                T2 = None
            if T2 is not None and T2["t"] == "unknown":
                others.append({"c": "EmptyArray", "params": {}})
            else:
                _, _, d2 = gen.layout(rng, cfg, T=T2)
                others.append(d2)
        op["others"] = others
    elif name == "simplify_uniontype":
        op["merge"] = rng.random() < 0.8
        op["mergebool"] = rng.random() < 0.3
    elif name in ("toListOffsetArray64", "compact_offsets64"):
        op["start_at_zero"] = rng.random() < 0.5
    elif name == "numbers_to_type":
        op["name"] = rng.choice(["bool", "int8", "int16", "int32", "int64", "uint8", "uint16", "uint32", "uint64",
                                 "float32", "float64", "complex64", "complex128"])
    elif name == "tojson":
        op["pretty"] = rng.random() < 0.2
        op["nan"] = "NaN"
        op["inf"] = "Infinity"
        op["minf"] = "-Infinity"
        op["creal"] = "real"
        op["cimag"] = "imag"
    return op


# ------------------------------------------------------------------ running

def read(b, h, want_type=True):
    """Content handle -> Outcome(value)"""
    txt = b.describe_text(h)
    lazy_len = None
    if '"c":"VirtualArray"' in txt:       # lazy results are read through their materialisation (C18)
        from vlib import bridge_virtual
        announced = None
        if txt.startswith('{"c":"VirtualArray"'):
            try:
                announced = b.length(h)
            except AkError:
                announced = None
        h = bridge_virtual.materialize(b, h)
        txt = b.describe_text(h)
        if announced is not None:
            try:
                lazy_len = (announced, b.length(h))
            except AkError:
                lazy_len = None
    d = json.loads(txt)
    t = None
    if want_type and d["c"] not in ("None", "Record") and not d.get("scalar"):
        try:
            t = b.typestr(h)
        except AkError as e:
            t = "<type error: %s>" % e.msg[:80]
    try:
        v = model.value(d)
    except Exception as e:     # an invalid result the model cannot follow (reported by the closure monitor)
        v = "<unreadable result: %s>" % type(e).__name__
    out = Outcome("value", v, t, d, handle=h)
    out.lazy_len = lazy_len
    return out


def read_index(b, ih):
    d = b.index_describe(ih)
    return Outcome("value", list(d["v"]), "Index:" + d["k"], None)


def run_op(b, h, op):
    try:
        return _run(b, h, op)
    except AkError as e:
        return Outcome("error", err=e.kind, msg=e.msg)


def _run(b, h, op):
    name = op["op"]
    if name == "getitem":
        s = b.slice(op["items"])
        return read(b, b.getitem(h, s))
    if name == "getitem_at":
        return read(b, b.getitem_at(h, op["i"]))
    if name == "getitem_range":
        return read(b, b.getitem_range(h, op["start"], op["stop"]))
    if name == "getitem_field":
        return read(b, b.getitem_field(h, op["key"]))
    if name == "getitem_fields":
        return read(b, b.getitem_fields(h, op["keys"]))
    if name == "carry":
        return read(b, b.carry(h, op["index"]))
    if name == "num":
        return read(b, b.num(h, op["axis"]))
    if name == "flatten":
        return read(b, b.flatten(h, op["axis"]))
    if name == "localindex":
        return read(b, b.localindex(h, op["axis"]))
    if name == "reduce":
        return read(b, b.reduce(h, op["name"], op["axis"], op["mask"], op["keepdims"]))
    if name == "sort":
        return read(b, b.sort(h, op["axis"], op["ascending"], op["stable"]))
    if name == "argsort":
        return read(b, b.argsort(h, op["axis"], op["ascending"], op["stable"]))
    if name == "combinations":
        return read(b, b.combinations(h, op["n"], op["replacement"], op.get("keys"), None, op["axis"]))
    if name == "rpad":
        return read(b, b.rpad(h, op["target"], op["axis"], op["clip"]))
    if name == "fillna":
        val = op["value"]
        arr = np.array([val], dtype=np.float64 if isinstance(val, float) else np.int64)
        vh = b.build(model.np_desc(arr))
        return read(b, b.fillna(h, vh))
    if name == "mergemany":
        others = [b.build(d) for d in op["others"]]
        return read(b, b.mergemany(h, others))
    if name == "shallow_simplify":
        return read(b, b.shallow_simplify(h))
    if name == "simplify_optiontype":
        return read(b, b.simplify_optiontype(h))
    if name == "simplify_uniontype":
        return read(b, b.simplify_uniontype(h, op["merge"], op["mergebool"]))
    if name == "project":
        return read(b, b.project(h))
    if name == "bytemask":
        return read_index(b, b.bytemask(h))
    if name == "toIndexedOptionArray64":
        return read(b, b.toIndexedOptionArray64(h))
    if name == "toByteMaskedArray":
        return read(b, b.toByteMaskedArray(h))
    if name == "toListOffsetArray64":
        return read(b, b.toListOffsetArray64(h, op["start_at_zero"]))
    if name == "compact_offsets64":
        return read_index(b, b.compact_offsets64(h, op["start_at_zero"]))
    if name == "toRegularArray":
        return read(b, b.toRegularArray(h))
    if name == "numbers_to_type":
        return read(b, b.numbers_to_type(h, op["name"]))
    if name == "is_unique":
        return Outcome("value", b.is_unique(h), "bool")
    if name == "unique":
        return read(b, b.unique(h))
    if name == "tojson":
        return Outcome("value", b.tojson(h, op["pretty"], -1, op["nan"], op["inf"], op["minf"], op["creal"],
                                         op["cimag"]), "json")
    if name == "tostring":
        s = b.tostring(h)
        return Outcome("value", len(s) > 0, "str")
    if name == "typestr":
        return Outcome("value", b.typestr(h), "str")
    if name == "form":
        return Outcome("value", b.form_tojson(b.form(h), False, False), "str")
    if name == "validityerror":
        return Outcome("value", b.validityerror(h), "str")
    if name == "deep_copy":
        return read(b, b.deep_copy(h))
    if name == "depths":
        return Outcome("value", [b.purelist_depth(h), list(b.minmax_depth(h)), list(b.branch_depth(h)),
                                 b.purelist_isregular(h), b.numfields(h), b.keys(h)], "queries")
    raise ValueError(name)
