"""Reference slicer on nested Python values (C01).

apply(v, items, depth) -> value, or raises Refuse (an error is required: index out of range), NoOpinion (documented
refusal class or a combination whose placement rules the statement does not fix).
items are the descriptors produced by vlib.ops.gen_slice_items.
"""
from __future__ import print_function

from vlib.oracles import Refuse, NoOpinion, is_list


def _wrap(i, n):
    if i < 0:
        i += n
    if i < 0 or i >= n:
        raise Refuse("index out of range")
    return i


def _project(x, keys, single):
    if x is None:
        return None
    if is_list(x):
        return [_project(y, keys, single) for y in x]
    if isinstance(x, dict):
        for k in keys:
            if k not in x:
                raise Refuse("no such field")
        if single:
            return x[keys[0]]
        return dict((k, x[k]) for k in keys)
    if isinstance(x, tuple):
        try:
            idx = [int(k) for k in keys]
            for i in idx:
                if i < 0 or i >= len(x):
                    raise Refuse("no such field")
        except ValueError:
            raise Refuse("no such field")
        if single:
            return x[idx[0]]
        return tuple(x[i] for i in idx)
    raise Refuse("field on non-record")


def _np_ndim(data):
    n = 0
    while isinstance(data, list):
        n += 1
        if not data:
            break
        data = data[0]
    return n


def _consumes(it):
    t = it["t"]
    if t in ("at", "range"):
        return 1
    if t == "array":
        if it.get("bool"):
            return max(1, _np_ndim(it["data"]))
        return 1
    if t == "content":
        return 2 if "jagged" in it else 1
    return 0


def classify(items, depth=None):
    """raise NoOpinion for the combinations the statement does not pin down"""
    kinds = [it["t"] for it in items]
    has_array = any(k in ("array", "content") for k in kinds)
    # "simple integers are advanced when any arrays are present" (Slice.cpp)
    adv = [i for i, it in enumerate(items) if it["t"] in ("array", "content") or (has_array and it["t"] == "at")]
    if depth is not None and sum(_consumes(it) for it in items) > depth:
        raise NoOpinion("more indexes than dimensions")
    if len(adv) > 1:
        if any(b - a != 1 for a, b in zip(adv, adv[1:])):
            raise NoOpinion("advanced indexes separated by basic ones")
        if any(items[i]["t"] == "content" for i in adv):
            raise NoOpinion("missing/jagged index mixed with other advanced indexes")
        if any(items[i]["t"] == "at" for i in adv):
            raise NoOpinion("integer iterated jointly with index arrays")
        if any(_np_ndim(items[i]["data"]) > 1 for i in adv):
            raise NoOpinion("multidimensional index arrays combined with other advanced indexes")
    if adv and "newaxis" in kinds:
        raise NoOpinion("newaxis combined with advanced indexes")
    if sum(1 for k in kinds if k in ("field", "fields")) > 1:
        raise NoOpinion("several field items (existence of the later ones is a property of the projected type)")
    if "content" in kinds and ("field" in kinds or "fields" in kinds):
        raise NoOpinion("missing/jagged index combined with field names")
    if kinds.count("ellipsis") > 1:
        raise Refuse("more than one ellipsis")
    for it in items:
        if it["t"] == "array" and it.get("bool") and _np_ndim(it["data"]) > 1:
            raise NoOpinion("multidimensional boolean index")
        if it["t"] == "array" and _np_ndim(it["data"]) > 2:
            raise NoOpinion("index array with more than two dimensions")
        if it["t"] == "content" and "jagged" in it and any(isinstance(x, bool) for row in it["jagged"] for x in row):
            pass


def apply(v, items, depth):
    classify(items, depth)
    return _apply(v, list(items), depth, None)


def _elem(x, tail, depth, adv):
    if not tail:
        return x
    if x is None:
        # a missing entry stays missing if something still indexes into it
        if any(it["t"] == "newaxis" for it in tail):
            raise NoOpinion("newaxis applied to a missing entry")
        if any(it["t"] in ("at", "array", "content") for it in tail):
            raise NoOpinion("index into a missing list (bounds are a property of the type there)")
        return None
    if not any(_consumes(it) for it in tail) and all(it["t"] in ("field", "fields", "ellipsis") for it in tail):
        return _apply_fields_only(x, tail)
    if not is_list(x):
        raise NoOpinion("more indexes than dimensions")
    return _apply(x, tail, depth - 1, adv)


def _apply_none(tail):
    return None


def _apply_fields_only(x, tail):
    for it in tail:
        if it["t"] == "field":
            x = _project(x, [it["key"]], True)
        elif it["t"] == "fields":
            x = _project(x, it["keys"], False)
    return x


def _apply(v, items, depth, adv):
    if not items:
        return v
    head, tail = items[0], items[1:]
    t = head["t"]
    if t == "field":
        return _apply(_project(v, [head["key"]], True), tail, depth, adv)
    if t == "fields":
        return _apply(_project(v, head["keys"], False), tail, depth, adv)
    if t == "newaxis":
        return [_apply(v, tail, depth, adv)]
    if t == "ellipsis":
        need = sum(_consumes(it) for it in tail)
        fill = depth - need
        if fill < 0:
            raise NoOpinion("more indexes than dimensions")
        return _apply(v, [{"t": "range", "start": None, "stop": None, "step": None}] * fill + tail, depth, adv)
    if not is_list(v):
        raise NoOpinion("more indexes than dimensions")
    n = len(v)
    if t == "at":
        return _elem(v[_wrap(head["i"], n)], tail, depth, adv)
    if t == "range":
        step = head.get("step")
        sel = v[slice(head.get("start"), head.get("stop"), step)]
        if not sel and any(it["t"] in ("at", "array", "content") for it in tail):
            raise NoOpinion("index applied below an empty selection (bounds are a property of the type there)")
        return [_elem(x, tail, depth, adv) for x in sel]
    if t == "array":
        data = head["data"]
        if head.get("bool"):
            if len(data) != n:
                raise NoOpinion("boolean index of the wrong length is not a well-formed index")
            data = [i for i, b in enumerate(data) if b]
        nd = _np_ndim(data)
        if nd == 2:
            return [[_elem(v[_wrap(i, n)], tail, depth, None) for i in row] for row in data]
        if adv is not None:
            # a further advanced array: iterated jointly with the first one (NumPy rule)
            p, plen = adv
            if len(data) == plen:
                i = data[p]
            elif len(data) == 1:
                i = data[0]
            else:
                raise Refuse("advanced indexes do not broadcast")
            return _elem(v[_wrap(i, n)], tail, depth, adv)
        nxt = tail[0] if tail and tail[0]["t"] == "array" else None
        if nxt is None:
            return [_elem(v[_wrap(i, n)], tail, depth, None) for i in data]
        # joint iteration with the following advanced arrays
        lens = [len(data)]
        j = 0
        while j < len(tail) and tail[j]["t"] == "array":
            d2 = tail[j]["data"]
            if tail[j].get("bool"):
                raise NoOpinion("boolean index iterated jointly with another advanced index")
            lens.append(len(d2))
            j += 1
        if 0 in lens and len(set(lens)) > 1:
            raise NoOpinion("zero-length index array broadcast against another one")
        non1 = sorted(set(l for l in lens if l != 1))
        if len(non1) > 1:
            raise Refuse("advanced indexes do not broadcast")
        plen = non1[0] if non1 else 1
        out = []
        for p in range(plen):
            i = data[p] if len(data) == plen else data[0]
            out.append(_elem(v[_wrap(i, n)], tail, depth, (p, plen)))
        return out
    if t == "content":
        if "missing" in head:
            out = []
            for i in head["missing"]:
                if i is None:
                    out.append(None)
                else:
                    out.append(_elem(v[_wrap(i, n)], tail, depth, None))
            return out
        jag = head["jagged"]
        if len(jag) != n:
            raise Refuse("jagged index of the wrong length")
        out = []
        for x, sub in zip(v, jag):
            if x is None:
                raise NoOpinion("jagged index over a missing list")
            if not is_list(x):
                raise NoOpinion("jagged index deeper than the array")
            if sub and isinstance(sub[0], bool) or (not sub and False):
                if len(sub) != len(x):
                    raise NoOpinion("jagged boolean index of the wrong length")
                sel = [y for y, b in zip(x, sub) if b]
            else:
                if any(isinstance(s, bool) for s in sub):
                    raise NoOpinion("mixed jagged index")
                sel = [x[_wrap(i, len(x))] for i in sub]
            out.append([_elem(y, tail, depth - 1, None) for y in sel])
        return out
    raise ValueError(t)
