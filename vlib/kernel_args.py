"""Argument model for C13: precondition-satisfying kernel argument tuples by construction.

`gen_case(rng, S, sp, tier, index)` returns the JSON case descriptor for
specialization `sp`:

    {"spec": <specialization>, "kernel": <kernel>, "args": {name: value, ...},
     "valid": bool, "siblings": [...], "corner": <tag or absent>}

`args` holds every `in` argument (lists for arrays, list of lists for
List[List[T]]) and the initial contents of in/out arguments.  Output extents
are not part of the descriptor: they follow from the definition.

Models are keyed on the kernel name; a kernel without an explicit model falls
back to `generic`, which infers roles from argument names (offsets / starts /
stops / parents / index / carry / mask / tags / ptr, len* / *length scalars) and
from the YAML `role` field.  All models draw element values through the typed
helpers of `G`, so the same model serves every width of a kernel: unsigned
specializations never receive -1, 32-bit ones receive origins near INT32_MAX,
float ones receive NaN / inf / subnormals, and so on.
"""
from __future__ import print_function

import re

from vlib import kernelspec as ks

MAXLEN = {"quick": 12, "thorough": 40}
P_INJECT = 0.12
P_CORNER = 0.10
KSLICENONE = 9223372036854775807

MODELS = {}


def model(*names):
    def deco(f):
        for n in names:
            MODELS[n] = f
        return f
    return deco


class G(object):
    """Typed value sources for one case."""

    def __init__(self, rng, sp, tier, mode="normal"):
        self.rng = rng
        self.sp = sp
        self.M = MAXLEN.get(tier, 12)
        self.mode = mode          # normal | zero | one | extreme | long
        self.flags = {}

    # ---- scalars
    def t(self, name):
        return self.sp.byname[name].t

    def has(self, name):
        return name in self.sp.byname

    def n(self, lo=0, hi=None):
        hi = self.M if hi is None else hi
        if self.mode == "zero":
            return lo
        if self.mode == "one":
            return max(lo, min(1, hi))
        if self.mode == "long":
            return hi
        r = self.rng.random()
        if r < 0.07:
            return lo
        if r < 0.15:
            return min(hi, lo + 1)
        if r < 0.75:
            return self.rng.randint(lo, max(lo, min(hi, 6)))
        return self.rng.randint(lo, hi)

    def small(self, lo, hi):
        return self.rng.randint(lo, hi)

    def flag(self):
        return self.rng.random() < 0.5

    def chance(self, p):
        return self.rng.random() < p

    # ---- integer arrays
    def _cap(self, name, v):
        t = self.t(name)
        if t.kind in ("int", "uint") and v > t.hi:
            return t.hi
        return v

    def origin(self, name, span=0, allow_extreme=True):
        """Where an offsets / starts sequence begins: 0, a small number, or as high as the type allows."""
        t = self.t(name)
        r = self.rng.random()
        if self.mode == "extreme" and allow_extreme and t.kind in ("int", "uint"):
            return max(0, t.hi - span)
        if r < 0.62:
            return 0
        if r < 0.88 or not allow_extreme or t.kind not in ("int", "uint"):
            return self.rng.randint(1, 5)
        top = t.hi - span
        if t.bits == 64 and t.kind == "int":
            # stay below kMaxInt64 = 2**63-2 which the library reserves
            top = (1 << 62) - span
        if top <= 0:
            return 0
        return self.rng.choice([top, top - self.rng.randint(0, 3), (1 << 31) - 1 - span if top > (1 << 31) else top,
                                (1 << 31) if top > (1 << 31) + span else top])

    def counts(self, n, maxcount=None):
        mc = maxcount if maxcount is not None else max(1, min(5, self.M // 2))
        if self.chance(0.15):
            c = self.rng.randint(0, mc)
            return [c] * n
        return [0 if self.chance(0.25) else self.rng.randint(0, mc) for _ in range(n)]

    def offsets(self, name, n, origin=None, counts=None, maxcount=None, allow_extreme=True):
        """n+1 monotone values."""
        if counts is None:
            counts = self.counts(n, maxcount)
        total = sum(counts)
        if origin is None:
            origin = self.origin(name, total, allow_extreme)
        out = [origin]
        for c in counts:
            out.append(out[-1] + c)
        return out

    def starts_stops(self, sname, n, content=None, counts=None, allow_extreme=False):
        """ListArray starts/stops: start <= stop <= content, or empty with any start."""
        if counts is None:
            counts = self.counts(n)
        t = self.t(sname)
        r = self.rng.random()
        if content is None:
            content = sum(counts) + self.rng.randint(0, 3)
        starts, stops = [], []
        if r < 0.45:
            # as if converted from offsets
            off = self.offsets(sname, n, origin=0 if content is not None else None, counts=counts,
                               allow_extreme=allow_extreme)
            starts, stops = off[:-1], off[1:]
            if stops and stops[-1] > content:
                # shrink to fit
                starts, stops = [], []
                r = 0.9
        if not starts and n:
            for c in counts:
                if c > content:
                    c = content
                if c == 0 and self.chance(0.3):
                    s = self.rng.randint(0, content + 5)     # empty list, start anywhere
                    if t.kind in ("int", "uint") and self.chance(0.2):
                        s = t.hi if t.bits < 64 else (1 << 40)
                    starts.append(s)
                    stops.append(s)
                else:
                    s = self.rng.randint(0, content - c)
                    starts.append(s)
                    stops.append(s + c)
        return starts, stops, content

    def parents(self, n, maxgap=2):
        """sorted, non-negative; returns (parents, minimal outlength)."""
        out = []
        p = 0 if self.chance(0.7) else self.rng.randint(0, 2)
        for _ in range(n):
            r = self.rng.random()
            if r < 0.35:
                p += 1
            elif r < 0.45:
                p += self.rng.randint(1, 1 + maxgap)
            out.append(p)
        return out, (max(out) + 1 if out else 0)

    def index(self, name, n, bound, neg=False, pneg=0.25):
        """n indexes in [0, bound), -1 for missing when allowed and representable."""
        t = self.t(name)
        signed = t.kind == "int"
        out = []
        for _ in range(n):
            if neg and signed and (bound <= 0 or self.chance(pneg)):
                out.append(-1 if self.chance(0.85) else -self.rng.randint(1, 3))
            elif bound <= 0:
                out.append(0)
            else:
                out.append(self.rng.randint(0, bound - 1))
        return out

    def wrapindex(self, name, n, length):
        """n indexes in [-length, length) (python-style) when signed, [0,length) otherwise."""
        t = self.t(name)
        lo = -length if t.kind == "int" else 0
        if length <= 0:
            return [0] * n
        return [self.rng.randint(lo, length - 1) for _ in range(n)]

    def mask(self, name, n):
        t = self.t(name)
        if self.chance(0.15) and t.kind != "bool":
            vals = [0, 1, 1, 0, 2, t.hi, t.lo if t.lo < 0 else 3]
            return [self.rng.choice(vals) for _ in range(n)]
        p = self.rng.choice([0.1, 0.5, 0.5, 0.9])
        return [1 if self.chance(p) else 0 for _ in range(n)]

    def tags(self, name, n, k):
        if k <= 0:
            return [0] * n
        return [self.rng.randint(0, k - 1) for _ in range(n)]

    def smallints(self, name, n, lo=0, hi=6):
        t = self.t(name)
        if t.kind == "uint" or t.kind == "bool":
            lo = max(lo, 0)
        return [self.rng.randint(lo, hi) for _ in range(n)]

    # ---- content values
    def value(self, t, fit=None):
        rng = self.rng
        k = t.kind
        ext = self.mode == "extreme"
        if k == "bool":
            return rng.random() < 0.5
        if k in ("int", "uint"):
            lo, hi = t.lo, t.hi
            if fit is not None and fit.kind in ("int", "uint"):
                pass
            r = rng.random()
            if ext or r < 0.18:
                return rng.choice([lo, hi, lo + 1, hi - 1, 0, 1, hi // 2, lo // 2 if lo else 2])
            if r < 0.70:
                return rng.randint(max(lo, -9), min(hi, 9))
            return rng.randint(lo, hi)
        # float / double
        f32 = t.bits == 32
        if fit is not None and fit.kind in ("int", "uint"):
            # will be converted to an integer type in C: keep it finite and inside the target
            flo, fhi = fit.lo, fit.hi
            if fit.bits >= 32:
                # keep clear of the rounding at the edge of the target range
                flo, fhi = max(flo, -(1 << 23)), min(fhi, (1 << 23))
            r = rng.random()
            if r < 0.5:
                v = float(rng.randint(max(flo, -9), min(fhi, 9)))
            elif r < 0.8:
                v = rng.uniform(max(flo, -100.0), min(fhi, 100.0))
            else:
                v = rng.uniform(flo, fhi)
            if not (flo <= int(v) <= fhi):
                v = 0.0
            return ks.cast(t, v)
        r = rng.random()
        if ext or r < 0.16:
            big = 3.4028234663852886e38 if f32 else 1.7976931348623157e308
            tiny = 1e-45 if f32 else 5e-324
            v = rng.choice([0.0, -0.0, float("inf"), float("-inf"), float("nan"), big, -big, tiny, -tiny, 1.0, -1.0,
                            16777217.0, 0.1])
        elif r < 0.6:
            v = float(rng.randint(-9, 9))
        elif r < 0.85:
            v = rng.uniform(-100.0, 100.0)
        else:
            v = rng.uniform(-1.0, 1.0) * 10.0 ** rng.randint(-30, 30)
        return ks.cast(t, v)

    def values(self, name, n, fit=None):
        t = self.t(name)
        return [self.value(t, fit) for _ in range(n)]

    def scalar(self, name):
        return self.value(self.t(name))

    def slice_int(self, length_hint=6):
        r = self.rng.random()
        if r < 0.2:
            return KSLICENONE
        return self.rng.randint(-length_hint - 2, length_hint + 2)


# =============================================================== the models
# ---- masks

@model("awkward_BitMaskedArray_to_ByteMaskedArray", "awkward_BitMaskedArray_to_IndexedOptionArray")
def m_bitmask(g):
    n = g.n()
    return dict(frombitmask=g.values("frombitmask", n), bitmasklength=n, validwhen=g.flag(), lsb_order=g.flag())


@model("awkward_ByteMaskedArray_getitem_carry")
def m_bm_carry(g):
    n, m = g.n(), g.n()
    return dict(frommask=g.mask("frommask", n), lenmask=n, fromcarry=g.index("fromcarry", m if n else 0, n), lencarry=m if n else 0)


@model("awkward_ByteMaskedArray_getitem_nextcarry", "awkward_ByteMaskedArray_getitem_nextcarry_outindex",
       "awkward_ByteMaskedArray_numnull", "awkward_ByteMaskedArray_toIndexedOptionArray")
def m_bm_mask(g):
    n = g.n()
    return dict(mask=g.mask("mask", n), length=n, validwhen=g.flag())


@model("awkward_ByteMaskedArray_mask")
def m_bm_mask2(g):
    n = g.n()
    return dict(frommask=g.mask("frommask", n), length=n, validwhen=g.flag())


@model("awkward_ByteMaskedArray_overlay_mask")
def m_bm_overlay(g):
    n = g.n()
    return dict(theirmask=[1 if g.flag() else 0 for _ in range(n)], mymask=g.mask("mymask", n), length=n,
                validwhen=g.flag())


@model("awkward_ByteMaskedArray_reduce_next_64")
def m_bm_reduce_next(g):
    n = g.n()
    p, _ = g.parents(n)
    return dict(mask=g.mask("mask", n), parents=p, length=n, validwhen=g.flag())


@model("awkward_ByteMaskedArray_reduce_next_nonlocal_nextshifts_64")
def m_bm_nextshifts(g):
    n = g.n()
    return dict(mask=g.mask("mask", n), length=n, valid_when=g.flag())


@model("awkward_ByteMaskedArray_reduce_next_nonlocal_nextshifts_fromshifts_64")
def m_bm_nextshifts2(g):
    n = g.n()
    return dict(mask=g.mask("mask", n), length=n, valid_when=g.flag(), shifts=g.smallints("shifts", n, 0, 5))


@model("awkward_Content_getitem_next_missing_jagged_getmaskstartstop")
def m_missing_jagged(g):
    n = g.n()
    idx = g.index("index_in", n, 5, neg=True, pneg=0.4)
    nvalid = sum(1 for x in idx if x >= 0)
    return dict(index_in=idx, offsets_in=g.offsets("offsets_in", nvalid), length=n)


# ---- identities

@model("awkward_Identities32_to_Identities64")
def m_id_3264(g):
    n, w = g.n(), g.small(0, 3)
    return dict(fromptr=g.values("fromptr", n * w), length=n, width=w)


@model("awkward_Identities_extend")
def m_id_extend(g):
    n = g.n()
    return dict(fromptr=g.values("fromptr", n), fromlength=n, tolength=n + g.n())


@model("awkward_Identities_from_IndexedArray")
def m_id_indexed(g):
    n, c, w = g.n(), g.n(), g.small(1, 3)
    # distinct targets most of the time (uniquecontents true), sometimes repeated
    if g.chance(0.6) and c >= 1:
        pool = list(range(c))
        g.rng.shuffle(pool)
        idx = [(pool.pop() if pool and not g.chance(0.2) else -1) for _ in range(n)]
        if g.t("fromindex").kind != "int":
            idx = [max(0, x) for x in idx]
    else:
        idx = g.index("fromindex", n, c, neg=True)
    return dict(fromptr=g.values("fromptr", n * w), fromindex=idx, tolength=c, fromlength=n, fromwidth=w)


@model("awkward_Identities_from_ListArray")
def m_id_listarray(g):
    n, w = g.n(), g.small(1, 3)
    st, sp, c = g.starts_stops("fromstarts", n)
    return dict(fromptr=g.values("fromptr", n * w), fromstarts=st, fromstops=sp, tolength=c, fromlength=n, fromwidth=w)


@model("awkward_Identities_from_ListOffsetArray")
def m_id_listoffset(g):
    n, w = g.n(), g.small(1, 3)
    off = g.offsets("fromoffsets", n, allow_extreme=False)
    return dict(fromptr=g.values("fromptr", n * w), fromoffsets=off, tolength=off[-1] + g.small(0, 3), fromlength=n,
                fromwidth=w)


@model("awkward_Identities_from_RegularArray")
def m_id_regular(g):
    n, w, size = g.n(0, 6), g.small(1, 3), g.small(0, 4)
    return dict(fromptr=g.values("fromptr", n * w), size=size, tolength=n * size + g.small(0, 4), fromlength=n,
                fromwidth=w)


@model("awkward_Identities_from_UnionArray")
def m_id_union(g):
    n, c, w, k = g.n(), g.n(1), g.small(1, 3), g.small(1, 3)
    if g.chance(0.6):
        pool = list(range(c))
        g.rng.shuffle(pool)
        idx = [(pool.pop() if pool else 0) for _ in range(n)]
    else:
        idx = g.index("fromindex", n, c)
    return dict(fromptr=g.values("fromptr", n * w), fromtags=g.tags("fromtags", n, k), fromindex=idx, tolength=c,
                fromlength=n, fromwidth=w, which=g.small(0, k - 1))


@model("awkward_Identities_getitem_carry")
def m_id_carry(g):
    n, m, w = g.n(), g.n(), g.small(0, 3)
    if n == 0:
        m = 0
    return dict(identitiesptr=g.values("identitiesptr", n * w), carryptr=g.index("carryptr", m, n), lencarry=m,
                width=w, length=n)


# ---- Index

@model("awkward_Index_iscontiguous")
def m_iscontig(g):
    n = g.n()
    v = list(range(n))
    if g.chance(0.5) and n:
        v[g.small(0, n - 1)] = g.small(0, n)
    return dict(fromindex=v, length=n)


@model("awkward_Index_to_Index64")
def m_to64(g):
    n = g.n()
    return dict(fromptr=g.values("fromptr", n), length=n)


# ---- IndexedArray

@model("awkward_IndexedArray_fill")
def m_ia_fill(g):
    n = g.n()
    return dict(toindexoffset=g.small(0, 4), fromindex=g.index("fromindex", n, 9, neg=True), length=n, base=g.small(0, 9))


@model("awkward_IndexedArray_fill_count")
def m_ia_fill_count(g):
    return dict(toindexoffset=g.small(0, 4), length=g.n(), base=g.small(0, 9))


@model("awkward_IndexedArray_flatten_nextcarry", "awkward_IndexedArray_getitem_nextcarry_outindex",
       "awkward_IndexedArray_getitem_nextcarry_outindex_mask")
def m_ia_nextcarry_opt(g):
    n, c = g.n(), g.n()
    return dict(fromindex=g.index("fromindex", n, c, neg=True), lenindex=n, lencontent=c)


@model("awkward_IndexedArray_getitem_nextcarry")
def m_ia_nextcarry(g):
    n, c = g.n(), g.n()
    if c == 0:
        n = 0
    return dict(fromindex=g.index("fromindex", n, c), lenindex=n, lencontent=c)


@model("awkward_IndexedArray_flatten_none2empty")
def m_ia_none2empty(g):
    n, m = g.n(), g.n()
    off = g.offsets("offsets", m, allow_extreme=True)
    return dict(outindex=g.index("outindex", n, m, neg=True), outindexlength=n, offsets=off, offsetslength=m + 1)


@model("awkward_IndexedArray_getitem_adjust_outindex")
def m_ia_adjust_outindex(g):
    n = g.n()
    idx, k = [], 0
    for _ in range(n):
        if g.chance(0.3):
            idx.append(-1)
        else:
            idx.append(k)
            k += g.small(1, 2)
    valid = [x for x in idx if x >= 0]
    nz = [x for x in valid if g.chance(0.6)]
    return dict(fromindex=idx, fromindexlength=n, nonzero=nz, nonzerolength=len(nz))


@model("awkward_IndexedArray_getitem_carry")
def m_ia_carry(g):
    n, m = g.n(), g.n()
    if n == 0:
        m = 0
    return dict(fromindex=g.index("fromindex", n, 9, neg=True), fromcarry=g.index("fromcarry", m, n), lenindex=n, lencarry=m)


@model("awkward_IndexedArray_mask", "awkward_UnionArray_fillna")
def m_ia_mask(g):
    n = g.n()
    return dict(fromindex=g.index("fromindex", n, 9, neg=True), length=n)


@model("awkward_IndexedArray_numnull")
def m_ia_numnull(g):
    n = g.n()
    return dict(fromindex=g.index("fromindex", n, 9, neg=True), lenindex=n)


@model("awkward_IndexedArray_index_of_nulls")
def m_ia_index_of_nulls(g):
    n = g.n()
    p, o = g.parents(n)
    starts = [0] * o
    for i in range(n - 1, -1, -1):
        starts[p[i]] = i
    return dict(fromindex=g.index("fromindex", n, 9, neg=True), lenindex=n, parents=p, starts=starts)


@model("awkward_IndexedArray_overlay_mask")
def m_ia_overlay(g):
    n = g.n()
    return dict(mask=g.mask("mask", n), fromindex=g.index("fromindex", n, 9, neg=True), length=n)


@model("awkward_IndexedArray_reduce_next_64")
def m_ia_reduce_next(g):
    n = g.n()
    p, _ = g.parents(n)
    return dict(index=g.index("index", n, 9, neg=True), parents=p, length=n)


@model("awkward_IndexedArray_reduce_next_fix_offsets_64")
def m_ia_fix_offsets(g):
    n = g.n()
    off = g.offsets("starts", n, allow_extreme=False)
    return dict(starts=off[:-1], startslength=n, outindexlength=off[-1])


@model("awkward_IndexedArray_reduce_next_nonlocal_nextshifts_64")
def m_ia_nextshifts(g):
    n = g.n()
    return dict(index=g.index("index", n, 9, neg=True), length=n)


@model("awkward_IndexedArray_reduce_next_nonlocal_nextshifts_fromshifts_64")
def m_ia_nextshifts2(g):
    n = g.n()
    return dict(index=g.index("index", n, 9, neg=True), length=n, shifts=g.smallints("shifts", n, 0, 5))


@model("awkward_IndexedArray_simplify")
def m_ia_simplify(g):
    n, m = g.n(), g.n()
    return dict(outerindex=g.index("outerindex", n, m, neg=True), outerlength=n,
                innerindex=g.index("innerindex", m, 9, neg=True), innerlength=m)


@model("awkward_IndexedArray_validity")
def m_ia_validity(g):
    n, c = g.n(), g.n()
    opt = g.flag()
    if c == 0 and not opt:
        n = 0
    return dict(index=g.index("index", n, c, neg=opt), length=n, lencontent=c, isoption=opt)


@model("awkward_IndexedArray_ranges_next_64", "awkward_IndexedArray_ranges_carry_next_64")
def m_ia_ranges(g):
    n = g.n()
    st, sp, c = g.starts_stops("fromstarts", n)
    c = max([c] + [b for a, b in zip(st, sp) if b > a])
    return dict(index=g.index("index", c, 9, neg=True), fromstarts=st, fromstops=sp, length=n)


@model("awkward_IndexedOptionArray_rpad_and_clip_mask_axis1")
def m_ioa_rpad_mask(g):
    n = g.n()
    return dict(frommask=g.mask("frommask", n), length=n)


# ---- ListArray

@model("awkward_ListArray_broadcast_tooffsets")
def m_la_broadcast(g):
    n = g.n()
    counts = g.counts(n)
    off = g.offsets("fromoffsets", n, counts=counts)
    st, sp, c = g.starts_stops("fromstarts", n, counts=counts)
    return dict(fromoffsets=off, offsetslength=n + 1, fromstarts=st, fromstops=sp, lencontent=c)


@model("awkward_ListArray_combinations_length")
def m_la_comb_len(g):
    n = g.n()
    st, sp, _ = g.starts_stops("starts", n)
    return dict(n=g.small(0, 4), replacement=g.flag(), starts=st, stops=sp, length=n)


@model("awkward_ListArray_compact_offsets", "awkward_ListArray_num")
def m_la_startsstops(g):
    n = g.n()
    st, sp, _ = g.starts_stops("fromstarts", n, allow_extreme=True)
    return dict(fromstarts=st, fromstops=sp, length=n)


@model("awkward_ListArray_fill")
def m_la_fill(g):
    n = g.n()
    st, sp, _ = g.starts_stops("fromstarts", n)
    return dict(tostartsoffset=g.small(0, 4), tostopsoffset=g.small(0, 4), fromstarts=st, fromstops=sp, length=n,
                base=g.small(0, 9))


@model("awkward_ListArray_getitem_carry")
def m_la_carry(g):
    n, m = g.n(), g.n()
    if n == 0:
        m = 0
    st, sp, _ = g.starts_stops("fromstarts", n)
    return dict(fromstarts=st, fromstops=sp, fromcarry=g.index("fromcarry", m, n), lenstarts=n, lencarry=m)


@model("awkward_ListArray_getitem_jagged_apply")
def m_la_jagged_apply(g):
    n = g.n()
    st, sp, c = g.starts_stops("fromstarts", n)
    scounts = [0 if (b - a) == 0 else g.small(0, 4) for a, b in zip(st, sp)]
    soff = g.offsets("slicestarts", n, origin=0, counts=scounts)
    sliceindex = []
    for i in range(n):
        sliceindex.extend(g.wrapindex("sliceindex", scounts[i], sp[i] - st[i]))
    extra = g.small(0, 2)
    sliceindex.extend([0] * extra)
    return dict(slicestarts=soff[:-1], slicestops=soff[1:], sliceouterlen=n, sliceindex=sliceindex,
                sliceinnerlen=len(sliceindex), fromstarts=st, fromstops=sp, contentlen=c)


@model("awkward_ListArray_getitem_jagged_carrylen")
def m_la_jagged_carrylen(g):
    n = g.n()
    st, sp, _ = g.starts_stops("slicestarts", n)
    return dict(slicestarts=st, slicestops=sp, sliceouterlen=n)


@model("awkward_ListArray_getitem_jagged_descend")
def m_la_jagged_descend(g):
    n = g.n()
    counts = g.counts(n)
    soff = g.offsets("slicestarts", n, counts=counts, allow_extreme=False)
    st, sp, _ = g.starts_stops("fromstarts", n, counts=counts)
    return dict(slicestarts=soff[:-1], slicestops=soff[1:], sliceouterlen=n, fromstarts=st, fromstops=sp)


@model("awkward_ListArray_getitem_jagged_expand")
def m_la_jagged_expand(g):
    n, js = g.n(), g.small(0, 4)
    st, sp, _ = g.starts_stops("fromstarts", n, counts=[js] * n)
    return dict(singleoffsets=g.offsets("singleoffsets", js), fromstarts=st, fromstops=sp, jaggedsize=js, length=n)


@model("awkward_ListArray_getitem_jagged_numvalid")
def m_la_jagged_numvalid(g):
    n = g.n()
    off = g.offsets("slicestarts", n, allow_extreme=False)
    m = off[-1] + g.small(0, 2)
    return dict(slicestarts=off[:-1], slicestops=off[1:], length=n, missing=g.index("missing", m, 9, neg=True),
                missinglength=m)


@model("awkward_ListArray_getitem_jagged_shrink")
def m_la_jagged_shrink(g):
    n = g.n()
    off = g.offsets("slicestarts", n, allow_extreme=False)
    return dict(slicestarts=off[:-1], slicestops=off[1:], length=n, missing=g.index("missing", off[-1], 9, neg=True))


def _common_wrapindex(g, name, m, st, sp):
    minlen = min([b - a for a, b in zip(st, sp)] or [3])
    return g.wrapindex(name, m if minlen > 0 else 0, minlen)


@model("awkward_ListArray_getitem_next_array")
def m_la_next_array(g):
    n, m = g.n(), g.n()
    st, sp, c = g.starts_stops("fromstarts", n, counts=[g.small(1, 4) for _ in range(n)] if g.chance(0.8) else None)
    arr = _common_wrapindex(g, "fromarray", m, st, sp)
    return dict(fromstarts=st, fromstops=sp, fromarray=arr, lenstarts=n, lenarray=len(arr), lencontent=c)


@model("awkward_ListArray_getitem_next_array_advanced")
def m_la_next_array_adv(g):
    n, m = g.n(), g.n(1)
    st, sp, c = g.starts_stops("fromstarts", n, counts=[g.small(1, 4) for _ in range(n)] if g.chance(0.8) else None)
    arr = _common_wrapindex(g, "fromarray", m, st, sp)
    if not arr:
        n, st, sp = 0, [], []
    return dict(fromstarts=st, fromstops=sp, fromarray=arr, fromadvanced=g.index("fromadvanced", n, len(arr)),
                lenstarts=n, lenarray=len(arr), lencontent=c)


@model("awkward_ListArray_getitem_next_at")
def m_la_next_at(g):
    n = g.n()
    st, sp, _ = g.starts_stops("fromstarts", n, counts=[g.small(1, 4) for _ in range(n)] if g.chance(0.8) else None)
    minlen = min([b - a for a, b in zip(st, sp)] or [3])
    at = g.small(-minlen, minlen - 1) if minlen > 0 else 0
    return dict(fromstarts=st, fromstops=sp, lenstarts=n, at=at)


@model("awkward_ListArray_getitem_next_range", "awkward_ListArray_getitem_next_range_carrylength")
def m_la_next_range(g):
    n = g.n()
    st, sp, _ = g.starts_stops("fromstarts", n)
    step = g.rng.choice([1, 1, 2, 3, -1, -1, -2, 5])
    return dict(fromstarts=st, fromstops=sp, lenstarts=n, start=g.slice_int(), stop=g.slice_int(), step=step)


@model("awkward_ListArray_getitem_next_range_counts")
def m_la_range_counts(g):
    n = g.n()
    return dict(fromoffsets=g.offsets("fromoffsets", n), lenstarts=n)


@model("awkward_ListArray_getitem_next_range_spreadadvanced")
def m_la_spread(g):
    n = g.n()
    return dict(fromadvanced=g.smallints("fromadvanced", n, 0, 9), fromoffsets=g.offsets("fromoffsets", n, allow_extreme=False),
                lenstarts=n)


@model("awkward_ListArray_localindex")
def m_la_localindex(g):
    n = g.n()
    return dict(offsets=g.offsets("offsets", n, allow_extreme=False), length=n)


@model("awkward_ListArray_min_range")
def m_la_min_range(g):
    n = g.n()
    st, sp, _ = g.starts_stops("fromstarts", n, allow_extreme=True)
    return dict(fromstarts=st, fromstops=sp, lenstarts=n)


@model("awkward_ListArray_rpad_and_clip_length_axis1")
def m_la_rpad_len(g):
    n = g.n()
    st, sp, _ = g.starts_stops("fromstarts", n, allow_extreme=True)
    return dict(fromstarts=st, fromstops=sp, target=g.small(0, 6), lenstarts=n)


@model("awkward_ListArray_rpad_axis1")
def m_la_rpad(g):
    n = g.n()
    st, sp, _ = g.starts_stops("fromstarts", n)
    return dict(fromstarts=st, fromstops=sp, target=g.small(0, 6), length=n)


@model("awkward_ListArray_validity")
def m_la_validity(g):
    n = g.n()
    st, sp, c = g.starts_stops("starts", n)
    return dict(starts=st, stops=sp, length=n, lencontent=c)


# ---- ListOffsetArray

@model("awkward_ListOffsetArray_compact_offsets")
def m_loa_compact(g):
    n = g.n()
    return dict(fromoffsets=g.offsets("fromoffsets", n), length=n)


@model("awkward_ListOffsetArray_flatten_offsets")
def m_loa_flatten(g):
    n, m = g.n(), g.n()
    inner = g.offsets("inneroffsets", m)
    counts = g.counts(n)
    # outer offsets index into inner offsets: keep the last one <= m
    outer = [0 if g.chance(0.7) else g.small(0, min(2, m))]
    for c in counts:
        outer.append(min(m, outer[-1] + c))
    return dict(outeroffsets=outer, outeroffsetslen=n + 1, inneroffsets=inner, inneroffsetslen=m + 1)


@model("awkward_ListOffsetArray_getitem_adjust_offsets")
def m_loa_adjust(g):
    n = g.n()
    off = g.offsets("fromoffsets", n, allow_extreme=False)
    nz = [x for x in range(off[0], off[-1]) if g.chance(0.6)]
    return dict(fromoffsets=off, length=n, nonzero=nz, nonzerolength=len(nz))


@model("awkward_ListOffsetArray_getitem_adjust_offsets_index")
def m_loa_adjust_index(g):
    n = g.n()
    off = g.offsets("fromoffsets", n, origin=0)
    total = off[-1]
    msk = g.mask("originalmask", total)
    nz = [x for x in range(total) if not msk[x] and g.chance(0.7)]
    idx, k = [], 0
    for x in range(total):
        if msk[x]:
            idx.append(-1)
        elif x in nz:
            idx.append(k)
            k += 1
    return dict(fromoffsets=off, length=n, index=idx, indexlength=len(idx), nonzero=nz, nonzerolength=len(nz),
                originalmask=msk, masklength=total)


@model("awkward_ListOffsetArray_reduce_global_startstop_64", "awkward_ListOffsetArray_reduce_nonlocal_maxcount_offsetscopy_64")
def m_loa_offsets_len(g):
    n = g.n()
    return dict(offsets=g.offsets("offsets", n), length=n)


@model("awkward_ListOffsetArray_reduce_local_nextparents_64")
def m_loa_nextparents(g):
    n = g.n()
    off = g.offsets("offsets", n)
    return dict(offsets=off, length=n)


@model("awkward_ListOffsetArray_reduce_local_outoffsets_64", "awkward_NumpyArray_reduce_mask_ByteMaskedArray_64",
       "awkward_reduce_count_64")
def m_parents_out(g):
    n = g.n()
    p, o = g.parents(n)
    return dict(parents=p, lenparents=n, outlength=o + (g.small(0, 2) if g.chance(0.4) else 0))


@model("awkward_ListOffsetArray_reduce_nonlocal_findgaps_64")
def m_findgaps(g):
    n = g.n()
    p, _ = g.parents(n)
    return dict(parents=p, lenparents=n)


@model("awkward_ListOffsetArray_reduce_nonlocal_nextshifts_64")
def m_loa_nonlocal_nextshifts(g):
    n = g.n()
    counts = g.counts(n, 4)
    off = g.offsets("offsets", n, origin=0, counts=counts)
    # parents of the lists, sorted and starting at 0; starts[p] = first list of parent p
    p, o = [], 0
    for i in range(n):
        if i and g.chance(0.4):
            o += 1
        p.append(o)
    nparents = (o + 1) if n else 0
    starts = [0] * nparents
    for i in range(n - 1, -1, -1):
        starts[p[i]] = i
    maxcount = max(counts or [0]) + (g.small(0, 1))
    total = off[-1]
    nextlen = g.n(0, total) if total else 0
    nc = list(range(total))
    g.rng.shuffle(nc)
    return dict(offsets=off, length=n, starts=starts, parents=p, maxcount=maxcount, nextlen=nextlen,
                nextcarry=nc[:nextlen])


@model("awkward_ListOffsetArray_reduce_nonlocal_nextstarts_64")
def m_loa_nextstarts(g):
    n = g.n()
    p, _ = g.parents(n)
    return dict(nextparents=p, nextlen=n)


@model("awkward_ListOffsetArray_reduce_nonlocal_outstartsstops_64")
def m_loa_outstartsstops(g):
    # distincts: outlength blocks of maxcount entries; a non-empty block holds an increasing id, padded with -1;
    # gaps (from findgaps on the parents) = distance between consecutive non-empty blocks
    o = g.n(1, 6)
    mc = g.small(1, 4)
    dist, gaps, last, ident = [], [], -1, 0
    for b in range(o):
        k = g.small(0, mc)
        dist.extend([ident] * k + [-1] * (mc - k))
        if k:
            gaps.append(b - last)
            last = b
            ident += 1
    gaps.extend([1] * g.small(0, 2))
    return dict(distincts=dist, lendistincts=len(dist), gaps=gaps, outlength=o)


@model("awkward_ListOffsetArray_rpad_and_clip_axis1")
def m_loa_rpad_clip(g):
    n = g.n()
    return dict(fromoffsets=g.offsets("fromoffsets", n), length=n, target=g.small(0, 6))


@model("awkward_ListOffsetArray_rpad_axis1", "awkward_ListOffsetArray_rpad_length_axis1")
def m_loa_rpad(g):
    n = g.n()
    return dict(fromoffsets=g.offsets("fromoffsets", n), fromlength=n, target=g.small(0, 6))


@model("awkward_ListOffsetArray_toRegularArray")
def m_loa_toregular(g):
    n = g.n()
    counts = [g.small(0, 4)] * n if g.chance(0.7) else None
    return dict(fromoffsets=g.offsets("fromoffsets", n, counts=counts), offsetslength=n + 1)


@model("awkward_MaskedArray_getitem_next_jagged_project")
def m_masked_project(g):
    n = g.n()
    st, sp, _ = g.starts_stops("starts_in", n)
    return dict(index=g.index("index", n, 9, neg=True), starts_in=st, stops_in=sp, length=n)


# ---- NumpyArray

@model("awkward_NumpyArray_contiguous_init")
def m_na_contig_init(g):
    return dict(skip=g.n(), stride=g.small(-3, 9))


@model("awkward_NumpyArray_contiguous_next")
def m_na_contig_next(g):
    n = g.n()
    return dict(frompos=g.smallints("frompos", n, 0, 50), length=n, skip=g.small(0, 4), stride=g.small(-3, 9))


def _out_type(g, name="toptr"):
    return g.t(name)


@model("awkward_NumpyArray_fill", "awkward_NumpyArray_fill_tobool", "awkward_NumpyArray_fill_frombool")
def m_na_fill(g):
    n = g.n()
    return dict(tooffset=g.small(0, 4), fromptr=g.values("fromptr", n, fit=g.t("toptr")), length=n)


@model("awkward_NumpyArray_fill_fromcomplex", "awkward_NumpyArray_fill_tocomplex")
def m_na_fill_complex(g):
    n = g.n()
    k = 2 if g.sp.kernel.name.endswith("fromcomplex") else 1
    return dict(tooffset=g.small(0, 4), fromptr=g.values("fromptr", n * k, fit=g.t("toptr")), length=n)


@model("awkward_NumpyArray_fill_scaled")
def m_na_fill_scaled(g):
    n = g.n()
    return dict(tooffset=g.small(0, 4), fromptr=g.smallints("fromptr", n, -9, 9), length=n,
                scale=g.rng.choice([0.0, 1.0, 2.0, 0.5, -1.5, 1000.0, 0.001]))


@model("awkward_NumpyArray_rearrange_shifted")
def m_na_rearrange(g):
    # toptr holds, per list, local positions 0..count-1 (a local argsort result); see the C++ caller
    n = g.n()
    counts = g.counts(n, 4)
    off = g.offsets("fromoffsets", n, origin=0, counts=counts)
    total = off[-1]
    toptr = []
    for c in counts:
        perm = list(range(c))
        g.rng.shuffle(perm)
        toptr.extend(perm)
    p, o = [], 0
    for i in range(total):
        if i and g.chance(0.3):
            o += 1
        p.append(o)
    nstarts = (o + 1) if total else 0
    starts = [0] * nstarts
    for i in range(total - 1, -1, -1):
        starts[p[i]] = i
    return dict(toptr=toptr, fromshifts=g.smallints("fromshifts", total, 0, 3), length=total, fromoffsets=off,
                offsetslength=n + 1, fromparents=p, parentslength=total, fromstarts=starts, startslength=nstarts)


@model("awkward_NumpyArray_getitem_boolean_nonzero", "awkward_NumpyArray_getitem_boolean_numtrue")
def m_na_boolean(g):
    n = g.n()
    return dict(fromptr=g.mask("fromptr", n), length=n, stride=g.small(1, 3))


@model("awkward_NumpyArray_getitem_next_array")
def m_na_next_array(g):
    n, m = g.n(), g.n()
    return dict(carryptr=g.smallints("carryptr", n, 0, 9), flatheadptr=g.smallints("flatheadptr", m, 0, 9), lencarry=n,
                lenflathead=m, skip=g.small(0, 5))


@model("awkward_NumpyArray_getitem_next_array_advanced")
def m_na_next_array_adv(g):
    n, m = g.n(), g.n(1)
    return dict(carryptr=g.smallints("carryptr", n, 0, 9), advancedptr=g.index("advancedptr", n, m),
                flatheadptr=g.smallints("flatheadptr", m, 0, 9), lencarry=n, skip=g.small(0, 5))


@model("awkward_NumpyArray_getitem_next_at")
def m_na_next_at(g):
    n = g.n()
    return dict(carryptr=g.smallints("carryptr", n, 0, 9), lencarry=n, skip=g.small(0, 5), at=g.small(0, 5))


@model("awkward_NumpyArray_getitem_next_range")
def m_na_next_range(g):
    n = g.n()
    return dict(carryptr=g.smallints("carryptr", n, 0, 9), lencarry=n, lenhead=g.small(0, 4), skip=g.small(0, 5),
                start=g.small(0, 5), step=g.small(-2, 3))


@model("awkward_NumpyArray_getitem_next_range_advanced")
def m_na_next_range_adv(g):
    n = g.n()
    return dict(carryptr=g.smallints("carryptr", n, 0, 9), advancedptr=g.smallints("advancedptr", n, 0, 9), lencarry=n,
                lenhead=g.small(0, 4), skip=g.small(0, 5), start=g.small(0, 5), step=g.small(-2, 3))


@model("awkward_NumpyArray_reduce_adjust_starts_64", "awkward_NumpyArray_reduce_adjust_starts_shifts_64")
def m_na_adjust_starts(g):
    n = g.n()
    p, o = g.parents(n)
    starts = [0] * o
    for i in range(n - 1, -1, -1):
        starts[p[i]] = i
    outlength = o + g.small(0, 1)
    toptr = g.index("toptr", outlength if n else 0, n, neg=True)
    if not n:
        toptr = [-1] * outlength
    d = dict(toptr=toptr, outlength=outlength, parents=p, starts=starts)
    if g.has("shifts"):
        d["shifts"] = g.smallints("shifts", n, 0, 3)
    return d


# ---- RegularArray

@model("awkward_RegularArray_broadcast_tooffsets")
def m_ra_broadcast(g):
    n, size = g.n(), g.small(0, 4)
    counts = [size] * n if g.chance(0.75) else None
    return dict(fromoffsets=g.offsets("fromoffsets", n, counts=counts), offsetslength=n + 1, size=size)


@model("awkward_RegularArray_broadcast_tooffsets_size1")
def m_ra_broadcast1(g):
    n = g.n()
    return dict(fromoffsets=g.offsets("fromoffsets", n), offsetslength=n + 1)


@model("awkward_RegularArray_compact_offsets", "awkward_RegularArray_localindex", "awkward_RegularArray_num")
def m_ra_size_len(g):
    return dict(length=g.n(), size=g.small(0, 5))


@model("awkward_RegularArray_getitem_carry")
def m_ra_carry(g):
    n = g.n()
    return dict(fromcarry=g.smallints("fromcarry", n, 0, 9), lencarry=n, size=g.small(0, 5))


@model("awkward_RegularArray_getitem_jagged_expand")
def m_ra_jagged_expand(g):
    size = g.small(0, 5)
    return dict(singleoffsets=g.offsets("singleoffsets", size), regularsize=size, regularlength=g.n())


@model("awkward_RegularArray_getitem_next_array")
def m_ra_next_array(g):
    m, size = g.n(), g.small(1, 5)
    return dict(fromarray=g.index("fromarray", m, size), length=g.n(), lenarray=m, size=size)


@model("awkward_RegularArray_getitem_next_array_advanced")
def m_ra_next_array_adv(g):
    n, m, size = g.n(), g.n(1), g.small(1, 5)
    return dict(fromadvanced=g.index("fromadvanced", n, m), fromarray=g.index("fromarray", m, size), length=n,
                lenarray=m, size=size)


@model("awkward_RegularArray_getitem_next_array_regularize")
def m_ra_regularize(g):
    m, size = g.n(), g.small(1, 5)
    return dict(fromarray=g.wrapindex("fromarray", m, size), lenarray=m, size=size)


@model("awkward_RegularArray_getitem_next_at")
def m_ra_next_at(g):
    size = g.small(1, 5)
    return dict(at=g.small(-size, size - 1), length=g.n(), size=size)


@model("awkward_RegularArray_getitem_next_range")
def m_ra_next_range(g):
    size = g.small(0, 5)
    return dict(regular_start=g.small(0, 5), step=g.small(-2, 3), length=g.n(), size=size, nextsize=g.small(0, 4))


@model("awkward_RegularArray_getitem_next_range_spreadadvanced")
def m_ra_spread(g):
    n = g.n()
    return dict(fromadvanced=g.smallints("fromadvanced", n, 0, 9), length=n, nextsize=g.small(0, 4))


@model("awkward_RegularArray_rpad_and_clip_axis1")
def m_ra_rpad(g):
    return dict(target=g.small(0, 6), size=g.small(0, 5), length=g.n())


@model("awkward_SliceVarNewAxis_to_SliceJagged64")
def m_slicevar(g):
    n = g.n()
    return dict(fromoffsets=g.offsets("fromoffsets", n, allow_extreme=False), length=n)


# ---- UnionArray

@model("awkward_UnionArray_fillindex")
def m_ua_fillindex(g):
    n = g.n()
    return dict(toindexoffset=g.small(0, 4), fromindex=g.index("fromindex", n, 20), length=n)


@model("awkward_UnionArray_fillindex_count")
def m_ua_fillindex_count(g):
    return dict(toindexoffset=g.small(0, 4), length=g.n())


@model("awkward_UnionArray_filltags")
def m_ua_filltags(g):
    n = g.n()
    return dict(totagsoffset=g.small(0, 4), fromtags=g.tags("fromtags", n, 4), length=n, base=g.small(0, 5))


@model("awkward_UnionArray_filltags_const")
def m_ua_filltags_const(g):
    return dict(totagsoffset=g.small(0, 4), length=g.n(), base=g.small(0, 5))


@model("awkward_UnionArray_flatten_combine", "awkward_UnionArray_flatten_length")
def m_ua_flatten(g):
    n, k = g.n(), g.small(1, 3)
    raws = []
    for _ in range(k):
        m = g.n(1, 5)
        # built through the int64 element type of offsetsraws
        raws.append(g.offsets("offsetsraws", m, allow_extreme=False))
    tags = g.tags("fromtags", n, k)
    idx = [g.small(0, len(raws[t]) - 2) for t in tags]
    return dict(fromtags=tags, fromindex=idx, length=n, offsetsraws=raws)


@model("awkward_UnionArray_nestedfill_tags_index")
def m_ua_nestedfill(g):
    n = g.n()
    counts = g.counts(n, 4)
    starts, pos = [], g.small(0, 2)
    for c in counts:
        starts.append(pos)
        pos += c + (g.small(0, 2) if g.chance(0.3) else 0)
    return dict(tmpstarts=starts, tag=g.small(0, 5), fromcounts=counts, length=n)


@model("awkward_UnionArray_project")
def m_ua_project(g):
    n, k = g.n(), g.small(1, 3)
    return dict(fromtags=g.tags("fromtags", n, k), fromindex=g.index("fromindex", n, 20), length=n, which=g.small(0, k))


@model("awkward_UnionArray_regular_index")
def m_ua_regular_index(g):
    n, k = g.n(), g.small(1, 4)
    return dict(size=k, fromtags=g.tags("fromtags", n, k), length=n)


@model("awkward_UnionArray_regular_index_getsize")
def m_ua_getsize(g):
    n = g.n()
    return dict(fromtags=g.tags("fromtags", n, g.small(1, 6)), length=n)


@model("awkward_UnionArray_simplify")
def m_ua_simplify(g):
    n, m, k = g.n(), g.n(1), g.small(1, 3)
    return dict(outertags=g.tags("outertags", n, k), outerindex=g.index("outerindex", n, m),
                innertags=g.tags("innertags", m, k), innerindex=g.index("innerindex", m, 20), towhich=g.small(0, 4),
                innerwhich=g.small(0, k - 1), outerwhich=g.small(0, k - 1), length=n, base=g.small(0, 9))


@model("awkward_UnionArray_simplify_one")
def m_ua_simplify_one(g):
    n, k = g.n(), g.small(1, 3)
    return dict(fromtags=g.tags("fromtags", n, k), fromindex=g.index("fromindex", n, 20), towhich=g.small(0, 4),
                fromwhich=g.small(0, k - 1), length=n, base=g.small(0, 9))


@model("awkward_UnionArray_validity")
def m_ua_validity(g):
    n, k = g.n(), g.small(1, 4)
    lens = [g.small(1, 6) for _ in range(k)]
    tags = g.tags("tags", n, k)
    return dict(tags=tags, index=[g.small(0, lens[t] - 1) for t in tags], length=n, numcontents=k, lencontents=lens)


# ---- misc

@model("awkward_carry_arange", "awkward_localindex", "awkward_new_Identities", "awkward_content_reduce_zeroparents_64",
       "awkward_one_mask", "awkward_zero_mask")
def m_length_only(g):
    return dict(length=g.n())


@model("awkward_carry_SliceJagged64_offsets", "awkward_carry_SliceJagged64_nextcarry")
def m_carry_jagged(g):
    m, n = g.n(), g.n()
    if m == 0:
        n = 0
    return dict(fromoffsets=g.offsets("fromoffsets", m, allow_extreme=g.sp.kernel.name.endswith("offsets")),
                fromcarry=g.index("fromcarry", n, m), carrylen=n)


@model("awkward_carry_SliceMissing64_outindex")
def m_carry_missing(g):
    n = g.n()
    return dict(fromindex=g.index("fromindex", n, 9, neg=True), length=n)


@model("awkward_combinations")
def m_combinations(g):
    return dict(n=g.small(0, 3), replacement=g.flag(), singlelen=g.n())


@model("awkward_index_carry")
def m_index_carry(g):
    m, n = g.n(), g.n()
    if m == 0:
        n = 0
    return dict(fromindex=g.index("fromindex", m, 9, neg=True), carry=g.index("carry", n, m), lenfromindex=m, length=n)


@model("awkward_index_carry_nocheck")
def m_index_carry_nocheck(g):
    m, n = g.n(), g.n()
    if m == 0:
        n = 0
    return dict(fromindex=g.index("fromindex", m, 9, neg=True), carry=g.index("carry", n, m), length=n)


@model("awkward_index_rpad_and_clip_axis0", "awkward_index_rpad_and_clip_axis1")
def m_index_rpad(g):
    return dict(target=g.small(0, 8), length=g.n())


@model("awkward_Index_nones_as_index")
def m_nones_as_index(g):
    n = g.n()
    return dict(toindex=g.index("toindex", n, 9, neg=True, pneg=0.4), length=n)


@model("awkward_missing_repeat")
def m_missing_repeat(g):
    n = g.n()
    return dict(index=g.index("index", n, 9, neg=True), indexlength=n, repetitions=g.small(0, 4), regularsize=g.small(0, 5))


def _identity_for(g):
    t = g.t("identity")
    if t.kind == "float":
        return g.rng.choice([float("inf"), float("-inf"), 0.0, ks.cast(t, 3.5)])
    return g.rng.choice([t.lo, t.hi, 0])


@model("awkward_reduce_argmax", "awkward_reduce_argmin", "awkward_reduce_argmax_bool_64", "awkward_reduce_argmin_bool_64",
       "awkward_reduce_countnonzero", "awkward_reduce_max", "awkward_reduce_min", "awkward_reduce_prod",
       "awkward_reduce_prod_bool", "awkward_reduce_prod_int32_bool_64", "awkward_reduce_prod_int64_bool_64",
       "awkward_reduce_sum", "awkward_reduce_sum_bool", "awkward_reduce_sum_int32_bool_64",
       "awkward_reduce_sum_int64_bool_64",
       "awkward_reduce_argmax_complex", "awkward_reduce_argmin_complex", "awkward_reduce_countnonzero_complex",
       "awkward_reduce_max_complex", "awkward_reduce_min_complex", "awkward_reduce_prod_complex",
       "awkward_reduce_prod_bool_complex", "awkward_reduce_sum_complex", "awkward_reduce_sum_bool_complex")
def m_reducer(g):
    n = g.n()
    p, o = g.parents(n)
    k = 2 if g.sp.kernel.name.endswith("_complex") else 1
    vals = g.values("fromptr", n * k)
    if g.sp.kernel.name == "awkward_reduce_prod_complex":
        vals = [ks.cast(g.t("fromptr"), g.rng.choice([0.5, -1.5, 2.0, 0.0, 1.0, 3.25, -0.75, g.rng.uniform(-3, 3)]))
                for _ in range(n * k)]
    d = dict(fromptr=vals, parents=p, lenparents=n,
             outlength=o + (g.small(0, 2) if g.chance(0.4) else 0))
    if g.has("identity"):
        d["identity"] = _identity_for(g)
    return d


@model("awkward_regularize_arrayslice")
def m_regularize_arrayslice(g):
    n, length = g.n(), g.small(1, 8)
    return dict(flatheadptr=g.wrapindex("flatheadptr", n, length), lenflathead=n, length=length)


@model("awkward_slicearray_ravel")
def m_ravel(g):
    ndim = g.small(1, 3)
    shape = [g.small(0, 4) for _ in range(ndim)]
    # element strides of a (possibly non-contiguous) array
    strides, acc = [0] * ndim, 1
    for d in range(ndim - 1, -1, -1):
        strides[d] = acc * g.small(1, 2)
        acc = strides[d] * max(1, shape[d])
    n = 1 + sum((s - 1) * st for s, st in zip(shape, strides)) if all(shape) else 0
    return dict(fromptr=g.smallints("fromptr", n, -9, 9), ndim=ndim, shape=shape, strides=strides)


@model("awkward_slicemissing_check_same")
def m_check_same(g):
    n = g.n()
    idx = g.index("missingindex", n, 9, neg=True)
    if g.chance(0.7):
        msk = [1 if x < 0 else 0 for x in idx]
    else:
        msk = g.mask("bytemask", n)
    return dict(bytemask=msk, missingindex=idx, length=n)


# ---- kernels without a YAML definition (references in kernel_overrides.HARNESS_DEFINITIONS)

def _first_of_each(p, o):
    starts = [0] * o
    for i in range(len(p) - 1, -1, -1):
        starts[p[i]] = i
    return starts


@model("awkward_IndexedArray_local_preparenext_64")
def m_ia_local_preparenext(g):
    n = g.n()
    p, o = g.parents(n)
    nxt = [x for x in p if g.chance(0.7)]
    return dict(starts=_first_of_each(p, o), parents=p, parentslength=n, nextparents=nxt, nextlen=len(nxt))


@model("awkward_ListOffsetArray_local_preparenext_64")
def m_loa_local_preparenext(g):
    n = g.n()
    if g.chance(0.5):
        v = list(range(n))
        g.rng.shuffle(v)
    else:
        v = g.smallints("fromindex", n, -3, 6)
    return dict(fromindex=v, length=n)


@model("awkward_ListOffsetArray_reduce_nonlocal_preparenext_64")
def m_loa_nonlocal_preparenext(g):
    n = g.n()
    counts = g.counts(n, 4)
    off = g.offsets("offsets", n, origin=g.small(0, 3), counts=counts)
    p, o = [], 0
    for i in range(n):
        if i and g.chance(0.4):
            o += 1
        p.append(o)
    maxcount = max(counts or [0]) + (1 if g.chance(0.2) else 0)
    nparents = (o + 1) if n else 0
    return dict(nextlen=sum(counts), distinctslen=maxcount * nparents + (g.small(0, 2) if g.chance(0.3) else 0),
                offsetscopy=off[:-1], offsets=off, length=n, parents=p, maxcount=maxcount)


def _bytes(g, n):
    return [g.rng.randint(0, 255) for _ in range(n)]


@model("awkward_NumpyArray_copy")
def m_na_copy(g):
    n = g.n()
    return {"fromptr": _bytes(g, n), "len": n}


@model("awkward_NumpyArray_contiguous_copy")
def m_na_contig_copy(g):
    stride, items, n = g.small(1, 4), g.n(), g.n()
    nbytes = items * stride + g.small(0, 2)
    if nbytes < stride:
        n = 0
    return {"fromptr": _bytes(g, nbytes), "len": n, "stride": stride,
            "pos": [g.rng.randint(0, nbytes - stride) for _ in range(n)]}


@model("awkward_NumpyArray_contiguous_copy_from_many")
def m_na_contig_copy_many(g):
    stride, k = g.small(1, 4), g.small(1, 3)
    if g.mode == "zero":
        return {"fromptrs": [], "fromlens": [], "len": 0, "stride": stride, "pos": []}
    ptrs, lens, pos = [], [], []
    for _ in range(k):
        items = g.n(1, 5)
        nbytes = items * stride
        m = g.n(1, 5)
        ptrs.append(_bytes(g, nbytes))
        lens.append(m)
        pos.extend(g.rng.randint(0, nbytes - stride) for _ in range(m))
    return {"fromptrs": ptrs, "fromlens": lens, "len": len(pos), "stride": stride, "pos": pos}


@model("awkward_NumpyArray_getitem_next_null")
def m_na_next_null(g):
    stride, items, n = g.small(1, 4), g.n(), g.n()
    if items == 0:
        n = 0
    return {"fromptr": _bytes(g, items * stride), "len": n, "stride": stride, "pos": g.index("pos", n, items)}


@model("awkward_ListArray_combinations")
def m_la_combinations(g):
    length, n = g.n(0, 5), g.small(1, 4)
    st, sp, _ = g.starts_stops("starts", length, counts=[g.small(0, 5) for _ in range(length)])
    return dict(tocarry=n, fromindex=[0] * n, n=n, replacement=g.flag(), starts=st, stops=sp, length=length)


@model("awkward_RegularArray_combinations_64")
def m_ra_combinations(g):
    n = g.small(1, 4)
    return dict(tocarry=n, fromindex=[0] * n, n=n, replacement=g.flag(), size=g.small(0, 5), length=g.n(0, 5))


def _sortable(g, name, n, nan=True):
    v = g.values(name, n)
    if g.chance(0.5):
        # plenty of ties
        pool = v[:max(1, n // 3)] or [0]
        v = [g.rng.choice(pool) for _ in range(n)]
    if not nan:
        v = [(0.0 if (isinstance(x, float) and x != x) else x) for x in v]
    return v


def _ranges_within(g, name, total):
    """offsets of consecutive ranges inside [0, total]"""
    cuts = sorted(g.rng.randint(0, total) for _ in range(g.n(0, 5) + 1)) if total or g.chance(0.5) else [0]
    if g.chance(0.6):
        cuts = [0] + cuts[1:]
        cuts[-1] = total
        cuts = sorted(cuts)
    return cuts


@model("awkward_sort")
def m_sort(g):
    n = g.n()
    off = _ranges_within(g, "offsets", n)
    return dict(fromptr=_sortable(g, "fromptr", n), length=n, offsets=off, offsetslength=len(off),
                parentslength=n if g.chance(0.85) else g.n(0, n), ascending=g.flag(), stable=g.flag())


@model("awkward_argsort")
def m_argsort(g):
    n = g.n()
    off = _ranges_within(g, "offsets", n)
    return dict(fromptr=_sortable(g, "fromptr", n), length=n, offsets=off, offsetslength=len(off),
                ascending=g.flag(), stable=g.flag())


@model("awkward_quick_argsort")
def m_quick_argsort(g):
    n = g.n()
    off = _ranges_within(g, "offsets", n)
    return dict(fromptr=_sortable(g, "fromptr", n, nan=False), length=n, tmpbeg=[0] * 48, tmpend=[0] * 48, offsets=off,
                offsetslength=len(off), ascending=g.flag(), stable=g.flag(), maxlevels=48)


@model("awkward_quick_sort")
def m_quick_sort(g):
    n = g.n()
    off = _ranges_within(g, "fromstarts", n)
    return dict(tmpptr=_sortable(g, "tmpptr", n, nan=False), tmpbeg=[0] * 48, tmpend=[0] * 48, fromstarts=off[:-1],
                fromstops=off[1:], ascending=g.flag(), length=len(off) - 1, maxlevels=48)


@model("awkward_unique")
def m_unique(g):
    n = g.n()
    v = _sortable(g, "toptr", n, nan=False)
    try:
        v = sorted(v)
    except TypeError:
        pass
    return dict(toptr=v, length=n)


@model("awkward_sorting_ranges_length")
def m_sorting_ranges_length(g):
    n = g.n()
    p, _ = g.parents(n)
    return dict(parents=p, parentslength=n)


@model("awkward_sorting_ranges")
def m_sorting_ranges(g):
    n = g.n()
    p, _ = g.parents(n)
    return dict(tolength=2 + sum(1 for i in range(1, n) if p[i - 1] != p[i]), parents=p, parentslength=n)


@model("awkward_NumpyArray_subrange_equal")
def m_subrange_equal(g):
    n = g.n()
    off = _ranges_within(g, "fromstarts", n)
    v = g.values("tmpptr", n)
    if g.chance(0.6) and n:
        v = [v[0]] * n
    return dict(tmpptr=v, fromstarts=off[:-1], fromstops=off[1:], length=len(off) - 1)


def _words(g, k, distinct=False):
    words, seen = [], set()
    for _ in range(k):
        for _try in range(20):
            w = tuple(g.rng.choice([97, 98, 99, 0x7a, 0x41, 200, 1]) for _ in range(g.small(0, 4)))
            if not distinct or w not in seen:
                break
        if distinct and w in seen:
            w = w + (len(seen) % 250 + 2,) * 5
        seen.add(w)
        words.append(w)
    return words


@model("awkward_NumpyArray_sort_asstrings_uint8")
def m_sort_asstrings(g):
    words = _words(g, g.n(0, 8))
    # now and then the strings sit beyond byte 255 of the buffer
    data = _bytes(g, g.small(250, 300)) if g.chance(0.12) else []
    off = [len(data)]
    for w in words:
        data.extend(w)
        off.append(len(data))
    return dict(fromptr=data, offsets=off, offsetslength=len(off), ascending=g.flag(), stable=g.flag())


@model("awkward_NumpyArray_unique_strings")
def m_unique_strings(g):
    words = sorted(_words(g, g.n(0, 8)))
    if g.chance(0.6):
        words = sorted(words + [g.rng.choice(words) for _ in range(g.small(0, 3))] if words else words)
    data, off = [], [0]
    for w in words:
        data.extend(w)
        off.append(len(data))
    return dict(toptr=data, offsets=off, offsetslength=len(off))


@model("awkward_ListOffsetArray_argsort_strings")
def m_argsort_strings(g):
    n = g.n(0, 10)
    p, _ = g.parents(n)
    stable = g.flag()
    # equal strings only when the result is unique (stable sort); see KNOWN_DEFECTS for the descending comparator
    words = _words(g, n, distinct=not (stable and g.chance(0.5)))
    data, st, sp = [], [], []
    for w in words:
        st.append(len(data))
        data.extend(w)
        sp.append(len(data))
    return dict(fromparents=p, length=n, stringdata=data, stringstarts=st, stringstops=sp, is_stable=stable,
                is_ascending=g.flag(), is_local=g.flag())


# ============================================================ generic fallback

_LENLIKE = re.compile(r"(^len)|(len$)|(length$)|(^length)")


def _stem(name):
    s = name
    for p in ("from", "to", "len"):
        if s.startswith(p) and len(s) > len(p):
            s = s[len(p):]
    for q in ("length", "len", "ptr", "_in", "_out"):
        if s.endswith(q) and len(s) > len(q):
            s = s[:-len(q)]
    return s


def generic(g):
    """Role inference from names for kernels that have no explicit model (e.g. newly added ones)."""
    sp = g.sp
    ins = [a for a in sp.args if not a.is_out]
    scal = [a for a in ins if not a.is_list]
    arrs = [a for a in ins if a.is_list]
    L = g.n()
    vals = {}
    lens = {}
    for a in scal:
        nm = a.name
        if a.t.kind == "bool":
            vals[nm] = g.flag()
        elif a.t.kind == "float":
            vals[nm] = g.scalar(nm)
        elif _LENLIKE.search(nm):
            v = L if g.chance(0.6) else g.n()
            if "offsets" in nm:
                v = v + 1
            vals[nm] = v
            lens[_stem(nm)] = v
        elif nm in ("size", "regularsize", "nextsize", "skip", "width", "fromwidth", "stride"):
            vals[nm] = g.small(1, 4)
        elif nm in ("target", "n", "base", "at", "which", "towhich", "tag") or nm.endswith("offset"):
            vals[nm] = g.small(0, 4)
        elif nm in ("start", "stop"):
            vals[nm] = g.slice_int()
        elif nm == "step":
            vals[nm] = g.rng.choice([1, 2, -1, 3])
        else:
            vals[nm] = g.small(0, 5)
    content = vals.get("lencontent", vals.get("contentlen", g.n()))

    def length_for(a):
        st = _stem(a.name)
        for key, v in lens.items():
            if key and (st == key or st.endswith(key) or key.endswith(st)):
                return v
        if "length" in vals:
            return vals["length"]
        return L

    pend_stops = {}
    for a in arrs:
        nm = a.name
        n = length_for(a)
        if a.depth == 2:
            vals[nm] = [g.offsets(nm, g.n(1, 4), allow_extreme=False) for _ in range(g.small(1, 3))]
        elif "offsets" in nm:
            m = n if (_stem(nm) in lens) else n + 1
            vals[nm] = g.offsets(nm, max(0, m - 1), allow_extreme=False) if m > 0 else []
        elif "starts" in nm:
            st, sp_, _ = g.starts_stops(nm, n, content=content)
            vals[nm] = st
            pend_stops[nm.replace("starts", "stops")] = sp_
        elif "stops" in nm:
            vals[nm] = pend_stops.get(nm) or g.starts_stops(nm, n, content=content)[1]
        elif "parents" in nm:
            p, o = g.parents(n)
            vals[nm] = p
            if "outlength" in vals:
                vals["outlength"] = o + g.small(0, 1)
        elif "mask" in nm:
            vals[nm] = g.mask(nm, n)
        elif "tags" in nm:
            vals[nm] = g.tags(nm, n, 3)
        elif any(k in nm for k in ("index", "carry", "array", "advanced", "pos", "missing")):
            vals[nm] = g.index(nm, n, content, neg=("index" in nm or "missing" in nm))
        else:
            vals[nm] = g.values(nm, n)
    return vals


def model_of(kernel):
    return MODELS.get(kernel.name, generic)


# ================================================================= injection

def _inject(g, sp, args):
    """One precondition violation: a perturbed element of an input array, or a length off by a little."""
    rng = g.rng
    cands = []
    for a in sp.args:
        if a.name not in args:
            continue
        if a.is_list and a.depth == 1 and a.t.kind in ("int", "uint") and len(args[a.name]) > 0:
            cands.append(a)
        elif not a.is_list and a.t.kind in ("int", "uint") and not a.is_out:
            cands.append(a)
    if not cands:
        return False
    a = rng.choice(cands)
    t = a.t
    if a.is_list:
        v = list(args[a.name])
        i = rng.randrange(len(v))
        old = v[i]
        new = rng.choice([old + 1, old - 1, -1, old + rng.randint(2, 20), 0, old - rng.randint(2, 20), len(v), len(v) + 1])
        if not (t.lo <= new <= t.hi) or new == old:
            return False
        v[i] = new
        args[a.name] = v
    else:
        old = args[a.name]
        new = rng.choice([old + 1, old - 1, 0, old + 2, -1])
        if not (t.lo <= new <= t.hi) or new == old:
            return False
        args[a.name] = new
    return True


# ================================================================== gen_case

def representable_in(sp, args):
    for a in sp.args:
        if a.name not in args:
            if a.is_out:
                continue
            return False
        v = args[a.name]
        if a.depth == 2:
            if a.is_out:
                continue        # number of output arrays
            if not all(ks.representable(a.t, sub) for sub in v):
                return False
        elif not ks.representable(a.t, v):
            return False
    return True


def gen_case(rng, S, sp, tier, index):
    r = rng.random()
    mode, corner = "normal", None
    if r < P_CORNER:
        mode = rng.choice(["zero", "zero", "one", "extreme", "long"])
        corner = {"zero": "all-lengths-zero", "one": "all-lengths-one", "extreme": "width-extreme-values",
                  "long": "maximal-lengths"}[mode]
    g = G(rng, sp, tier, mode)
    f = model_of(sp.kernel)
    args = f(g)
    # the model speaks in logical values; drop anything the specialization does not take
    args = dict((k, v) for k, v in args.items() if k in sp.byname)
    valid = True
    if corner is None and rng.random() < P_INJECT:
        if _inject(g, sp, args):
            valid = False
    sibs = [s.name for s in sp.kernel.specializations if s is not sp]
    rng.shuffle(sibs)
    case = {"spec": sp.name, "kernel": sp.kernel.name, "args": args, "valid": valid, "siblings": sibs[:3]}
    if corner:
        case["corner"] = corner
    return case


# ============================== kernels without a definition: declared extents

def declared_extents(sp, args):
    """For kernels that have neither a YAML definition nor a harness reference: the extents of the
    outputs come from kernel_overrides.DECLARED_EXTENTS (justified there); no output comparison."""
    from vlib import kernel_overrides as ko
    res = ks.RefResult()
    decl = ko.DECLARED_EXTENTS.get(sp.kernel.name)
    if decl is None:
        res.status = "rejected"
        res.reason = "no-definition-and-no-declared-extents"
        return res
    res.status = "ok"
    for a in sp.args:
        if a.is_out:
            res.extents[a.name] = int(decl[a.name](args))
            res.outputs[a.name] = {}
    return res
