"""ctypes side of bridge/akbridge_layoutbuilder.cpp: the Form-driven LayoutBuilder."""
from ctypes import c_void_p, c_char_p, c_int, c_int64, c_double

from vlib.bridge import Handle


def declare(L):
    if getattr(L, "_lb_declared", False):
        return
    vp, cp, i, i64, d = c_void_p, c_char_p, c_int, c_int64, c_double
    S = {"akb_lb_new": (vp, [vp, i64, d]), "akb_lb_free": (None, [vp]), "akb_lb_length": (i64, [vp]),
         "akb_lb_form": (vp, [vp]), "akb_lb_vm_source": (vp, [vp]), "akb_lb_typestr": (vp, [vp]),
         "akb_lb_snapshot": (vp, [vp]), "akb_lb_null": (i, [vp]), "akb_lb_boolean": (i, [vp, i]),
         "akb_lb_int64": (i, [vp, i64]), "akb_lb_float64": (i, [vp, d]), "akb_lb_complex": (i, [vp, d, d]),
         "akb_lb_string": (i, [vp, cp, i64]), "akb_lb_bytestring": (i, [vp, cp, i64]),
         "akb_lb_begin_list": (i, [vp]), "akb_lb_end_list": (i, [vp]), "akb_lb_tag": (i, [vp, i]),
         "akb_lb_index": (i, [vp, i64])}
    for name, (res, args) in S.items():
        f = getattr(L, name)
        f.restype, f.argtypes = res, args
    L._lb_declared = True


class LayoutBuilder(object):
    def __init__(self, b, form, initial=1024, resize=1.5):
        declare(b.L)
        self.b, self.L = b, b.L
        p = self.L.akb_lb_new(form.p, initial, resize)
        if not p:
            b._raise()
        self.h = Handle(b, p, self.L.akb_lb_free)

    def _rc(self, rc):
        if rc != 0:
            self.b._raise()

    def cmd(self, c):
        L, p, n = self.L, self.h.p, c[0]
        if n == "null":
            self._rc(L.akb_lb_null(p))
        elif n == "boolean":
            self._rc(L.akb_lb_boolean(p, int(c[1])))
        elif n == "int64":
            self._rc(L.akb_lb_int64(p, c[1]))
        elif n == "float64":
            self._rc(L.akb_lb_float64(p, c[1]))
        elif n == "complex":
            self._rc(L.akb_lb_complex(p, c[1], c[2]))
        elif n == "string":
            s = c[1].encode("utf-8", "surrogateescape") if isinstance(c[1], str) else bytes(c[1])
            self._rc(L.akb_lb_string(p, s, len(s)))
        elif n == "bytestring":
            s = bytes(c[1])
            self._rc(L.akb_lb_bytestring(p, s, len(s)))
        elif n == "begin_list":
            self._rc(L.akb_lb_begin_list(p))
        elif n == "end_list":
            self._rc(L.akb_lb_end_list(p))
        elif n == "tag":
            self._rc(L.akb_lb_tag(p, c[1]))
        elif n == "index":
            self._rc(L.akb_lb_index(p, c[1]))
        else:
            raise ValueError(n)

    def snapshot(self):
        return self.b._c(self.L.akb_lb_snapshot(self.h.p))

    def form(self):
        p = self.L.akb_lb_form(self.h.p)
        if not p:
            self.b._raise()
        return Handle(self.b, p, self.L.akb_form_free)

    def vm_source(self):
        return self.b._s(self.L.akb_lb_vm_source(self.h.p))

    def typestr(self):
        return self.b._s(self.L.akb_lb_typestr(self.h.p))

    def length(self):
        return self.b._n(self.L.akb_lb_length(self.h.p), bad=-999)
