"""Shared scaffold for the reference-semantics checks (lane L)."""
from __future__ import print_function

from vlib import gen, model, ops
from vlib.oracles import Refuse, NoOpinion


def levels_above_branch(T):
    """number of list levels (incl. the outermost) before the type branches (record/union) or ends"""
    n = 1
    while True:
        t = T["t"]
        if t in ("list", "regular"):
            n += 1
            T = T["e"]
        elif t in ("option", "categorical"):
            T = T["e"]
        else:
            return n, t in ("record", "union")


def maybe_negaxis(rng, T, p=0.5):
    """records/unions whose fields all have the same depth: a negative axis names one level, so an operation must agree
    with itself called with the equivalent non-negative axis (whatever lies between).  -> (negative, positive) or None"""
    lo, hi = gen.depth_of(T)
    _n, branches = levels_above_branch(T)
    if branches and lo == hi and rng.random() < p:
        k = rng.randint(1, hi)
        return -k, hi - k
    return None


def check_negaxis(ctx, b, h, case, out):
    """the monitor for cases made with maybe_negaxis (case["negaxis"] = the non-negative equivalent of op["axis"])"""
    from vlib import ops as _ops
    op = case["op"]
    pos = dict(op, axis=case["negaxis"])
    ref = _ops.run_op(b, h, pos)
    ctx.cover("negaxis", "%s:%d=%d:%s" % (op["op"], op["axis"], pos["axis"], ref.kind))
    if out.kind != ref.kind or (out.kind == "value" and not (model.same(out.value, ref.value) and out.type == ref.type)):
        ctx.violation("negative-axis-differs", {"op": op, "positive": pos, "got": out.brief(), "with_positive": ref.brief(),
                                                "type": gen.typestr(case["T"])})


def negaxis_signature(vio):
    det = vio.get("detail") or {}
    got = det.get("got") or {}
    return "%s:%s:%s" % (vio["kind"], (det.get("op") or {}).get("op"),
                         "error:" + str(got.get("msg"))[:40] if "error" in got else "value")


def uniform_cfg(tier, **kw):
    """types with a single, well-defined depth: lists / regular / option / primitives"""
    cfg = gen.Cfg(tier, records=False, unions=False, strings=False, categorical=False, **kw)
    return cfg


def compare(ctx, case, out, expected_fn, rel=0.0, note=None, refusal_required=True):
    """run the oracle and compare. expected_fn() -> model value; raises Refuse / NoOpinion"""
    op = case["op"]
    name = op["op"] + (":" + op["name"] if op["op"] == "reduce" else "")
    try:
        exp = expected_fn()
    except NoOpinion as e:
        ctx.cover("oracle", "no-opinion")
        ctx.count("no_opinion")
        return None
    except Refuse as e:
        ctx.cover("oracle", "refusal-required" if refusal_required else "outside-domain")
        if not refusal_required:
            ctx.cover("outside_domain_outcome", out.kind)
            return None
        if out.kind != "error":
            ctx.violation("missing-error", {"op": op, "why": str(e), "got": out.brief()})
            return False
        return True
    ctx.cover("oracle", "value")
    if out.kind == "error":
        ctx.violation("unexpected-error", {"op": op, "expected": model.brief(exp, 400), "got": out.brief()})
        return False
    if not model.same(out.value, exp, rel=rel):
        ctx.violation("wrong-value", {"op": op, "expected": model.brief(exp, 500), "got": out.brief(),
                                      "input": model.brief(model.value(case["layout"]), 500)})
        return False
    ctx.count("values_agree")
    return True
