"""Shared scaffold for the reference-semantics checks (lane L)."""
from __future__ import print_function

from vlib import gen, model, ops
from vlib.oracles import Refuse, NoOpinion


def levels_above_branch(T):
    """number of list levels (incl. the outermost) before the type branches (record/union) or ends"""
    n = 1
    while True:
        t = T["t"]
        if t in ("list", "regular"):
            n += 1
            T = T["e"]
        elif t in ("option", "categorical"):
            T = T["e"]
        else:
            return n, t in ("record", "union")


def uniform_cfg(tier, **kw):
    """types with a single, well-defined depth: lists / regular / option / primitives"""
    cfg = gen.Cfg(tier, records=False, unions=False, strings=False, categorical=False, **kw)
    return cfg


def compare(ctx, case, out, expected_fn, rel=0.0, note=None, refusal_required=True):
    """run the oracle and compare. expected_fn() -> model value; raises Refuse / NoOpinion"""
    op = case["op"]
    name = op["op"] + (":" + op["name"] if op["op"] == "reduce" else "")
    try:
        exp = expected_fn()
    except NoOpinion as e:
        ctx.cover("oracle", "no-opinion")
        ctx.count("no_opinion")
        return None
    except Refuse as e:
        ctx.cover("oracle", "refusal-required" if refusal_required else "outside-domain")
        if not refusal_required:
            ctx.cover("outside_domain_outcome", out.kind)
            return None
        if out.kind != "error":
            ctx.violation("missing-error", {"op": op, "why": str(e), "got": out.brief()})
            return False
        return True
    ctx.cover("oracle", "value")
    if out.kind == "error":
        ctx.violation("unexpected-error", {"op": op, "expected": model.brief(exp, 400), "got": out.brief()})
        return False
    if not model.same(out.value, exp, rel=rel):
        ctx.violation("wrong-value", {"op": op, "expected": model.brief(exp, 500), "got": out.brief(),
                                      "input": model.brief(model.value(case["layout"]), 500)})
        return False
    ctx.count("values_agree")
    return True
