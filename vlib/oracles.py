"""Reference semantics on nested Python values (model values), independent of the library.

Every function takes the model value `v` of an array (a Python list) and returns the expected model value, or
raises Refuse(reason) when the documented behaviour is an error (axis beyond depth, ...), or NoOpinion when the
statement of the property does not determine the result.
"""
from __future__ import print_function

import itertools
import math


class Refuse(Exception):
    """the operation is required to raise"""


class NoOpinion(Exception):
    """the property does not determine this case"""


def is_list(x):
    return isinstance(x, list)


def map_level(v, k, f):
    """apply f to every list found k levels below v (v itself is level 0); None stays None"""
    if v is None:
        return None
    if k == 0:
        return f(v)
    if not is_list(v):
        raise Refuse("axis exceeds the depth of this array")
    return [map_level(x, k - 1, f) for x in v]


def depth_range(v):
    """(min, max) list depth of a value; empty lists count as depth 1 + unknown (None)"""
    if not is_list(v):
        return (0, 0)
    if not v:
        return (1, 1)
    ds = [depth_range(x) for x in v if x is not None]
    if not ds:
        return (1, 1)
    return (1 + min(d[0] for d in ds), 1 + max(d[1] for d in ds))


def posaxis(axis, depth):
    """depth = purelist depth of the array type (number of list levels incl. the outer one)"""
    if axis < 0:
        axis = depth + axis
    if axis < 0 or axis >= depth:
        raise Refuse("axis out of range")
    return axis


# ------------------------------------------------------------------ C05

def num(v, axis, depth):
    k = posaxis(axis, depth)
    if k == 0:
        return len(v)

    def f(lst):
        if not is_list(lst):
            raise Refuse("axis exceeds depth")
        return len(lst)
    return map_level(v, k, f)


def flatten(v, axis, depth):
    k = posaxis(axis, depth)
    if k == 0:
        raise Refuse("axis=0 not allowed for flatten")

    def f(lst):
        out = []
        for x in lst:
            if x is None:
                continue                      # a missing list contributes nothing
            if not is_list(x):
                raise Refuse("axis exceeds depth")
            out.extend(x)
        return out
    return map_level(v, k - 1, f)


def localindex(v, axis, depth):
    k = posaxis(axis, depth)

    def f(lst):
        if not is_list(lst):
            raise Refuse("axis exceeds depth")
        return list(range(len(lst)))
    return map_level(v, k, f)


def leaves(v):
    """all leaves in order (axis=None flatten): lists are expanded, None dropped"""
    out = []

    def rec(x):
        if is_list(x):
            for y in x:
                rec(y)
        elif x is not None:
            out.append(x)
    rec(v)
    return out


# ------------------------------------------------------------------ C07

def combinations(v, n, replacement, axis, depth):
    k = posaxis(axis, depth)

    def f(lst):
        if not is_list(lst):
            raise Refuse("axis exceeds depth")
        it = itertools.combinations_with_replacement(lst, n) if replacement else itertools.combinations(lst, n)
        return [tuple(t) for t in it]
    return map_level(v, k, f)


# ------------------------------------------------------------------ C09

def rpad(v, target, axis, clip, depth):
    k = posaxis(axis, depth)

    def f(lst):
        if not is_list(lst):
            raise Refuse("axis exceeds depth")
        if clip:
            return (lst + [None] * target)[:target]
        return lst + [None] * max(0, target - len(lst))
    return map_level(v, k, f)


def fill_top(v, value):
    """fillna at the array's own level"""
    return [value if x is None else x for x in v]


# ------------------------------------------------------------------ C06 predicates

def _key(x):
    return x


def sorted_ok(before, after, ascending):
    """`after` is `before` sorted by the library's convention: NaN first (both directions), None last.
    -> None if fine, else a reason"""
    if len(before) != len(after):
        return "length changed"
    nb = [x for x in before if x is None]
    na = [x for x in after if x is None]
    if len(nb) != len(na):
        return "number of None changed"
    k = len(after) - len(na)
    if any(x is None for x in after[:k]):
        return "None not at the end"
    vals_b = [x for x in before if x is not None]
    vals_a = after[:k]
    nan_b = [x for x in vals_b if isinstance(x, float) and x != x]
    nan_a = [x for x in vals_a if isinstance(x, float) and x != x]
    if len(nan_b) != len(nan_a):
        return "number of NaN changed"
    if any(not (isinstance(x, float) and x != x) for x in vals_a[:len(nan_a)]):
        return "NaN not first"
    rest_b = sorted([x for x in vals_b if not (isinstance(x, float) and x != x)], key=_sortkey)
    rest_a = vals_a[len(nan_a):]
    if sorted(rest_a, key=_sortkey) != rest_b and [_sortkey(x) for x in sorted(rest_a, key=_sortkey)] != [_sortkey(x) for x in rest_b]:
        return "multiset of elements changed"
    for i in range(len(rest_a) - 1):
        a, b = _sortkey(rest_a[i]), _sortkey(rest_a[i + 1])
        if ascending and a > b:
            return "not non-decreasing"
        if not ascending and a < b:
            return "not non-increasing"
    return None


def _sortkey(x):
    if isinstance(x, bool):
        return int(x)
    if isinstance(x, str):
        return x.encode("utf-8", "surrogateescape")
    return x


def argsort_ok(before, positions, ascending, stable):
    if len(before) != len(positions):
        return "length changed"
    if any(p is None for p in positions):
        return "position is None"
    if sorted(positions) != list(range(len(before))):
        return "not a permutation of range(len)"
    after = [before[i] for i in positions]
    why = sorted_ok(before, after, ascending)
    if why:
        return "applied permutation: " + why
    if stable:
        for i in range(len(positions) - 1):
            a, b = before[positions[i]], before[positions[i + 1]]
            if a is None or b is None:
                continue
            if _eq(a, b) and positions[i] > positions[i + 1]:
                return "equal keys not in original order (stability)"
    return None


def _eq(a, b):
    if isinstance(a, float) and a != a:
        return isinstance(b, float) and b != b
    return a == b


# ------------------------------------------------------------------ skeleton (levels other than the addressed one)

def skeleton(v, stop_at):
    """structure of the first `stop_at` levels: lengths and missing-ness, leaves replaced by '.'"""
    if v is None:
        return None
    if stop_at == 0 or not is_list(v):
        return "."
    return [skeleton(x, stop_at - 1) for x in v]


# ------------------------------------------------------------------ coordinates (C03, C06)

def coords(v, depth):
    """[(path, leaf)] for every position `depth` list levels down (leaf may be None); a missing list higher up
    contributes nothing.  path = tuple of indexes."""
    out = []

    def rec(x, path, d):
        if d == 0:
            out.append((path, x))
            return
        if x is None:
            return
        if not is_list(x):
            raise Refuse("value shallower than depth")
        for i, y in enumerate(x):
            rec(y, path + (i,), d - 1)
    rec(v, (), depth)
    return out


def groups(v, depth, k):
    """leaves grouped along axis k: {key: [(kth coordinate, leaf), ...] in increasing kth coordinate}"""
    g = {}
    for path, leaf in coords(v, depth):
        key = path[:k] + path[k + 1:]
        g.setdefault(key, []).append((path[k], leaf))
    for key in g:
        g[key].sort(key=lambda t: t[0])
    return g


# ------------------------------------------------------------------ C03 reducers

I64 = (-(1 << 63), (1 << 63) - 1)


def _wrap(x, signed=True, bits=64):
    m = 1 << bits
    x %= m
    if signed and x >= m >> 1:
        x -= m
    return x


class LeafKind(object):
    """how to combine leaves of one dtype"""

    def __init__(self, dtype):
        import numpy as np
        self.dtype = dtype
        dt = np.dtype(dtype)
        self.kind = dt.kind          # b i u f c M m
        self.np = dt
        self.prefix = None
        if self.kind in "Mm":
            self.prefix = dt.str.lstrip("<>=|")

    def decode(self, x):
        if self.prefix is not None:
            return int(x.split(":")[1])
        return x

    def encode(self, x):
        if self.prefix is not None:
            return "%s:%d" % (self.prefix, x)
        return x


def reduce_group(name, members, lk, mask):
    """members: [(kth coordinate, leaf or None)] in order; -> reduced value (model value)"""
    import numpy as np
    vals = [(i, lk.decode(x)) for i, x in members if x is not None]
    k = lk.kind
    if mask and not vals:
        return None                      # mask_identity: a group without elements gives None for every reducer
    if name == "count":
        return len(vals)
    if name == "count_nonzero":
        if k in "Mm":
            raise NoOpinion("count_nonzero of datetimes")
        return sum(1 for _, x in vals if x != 0)
    if name == "any":
        if k in "Mm":
            raise NoOpinion("any of datetimes")
        return any(x != 0 for _, x in vals)
    if name == "all":
        if k in "Mm":
            raise NoOpinion("all of datetimes")
        return all(x != 0 for _, x in vals)
    if name in ("sum", "prod"):
        if k in "Mm":
            raise NoOpinion("sum/prod of datetimes")
        if k in "biu":
            acc = 0 if name == "sum" else 1
            for _, x in vals:
                acc = acc + int(x) if name == "sum" else acc * int(x)
            return _wrap(acc, signed=(k != "u"))
        if k == "f":
            acc = lk.np.type(0 if name == "sum" else 1)
            with np.errstate(all="ignore"):
                for _, x in vals:
                    acc = lk.np.type(acc + lk.np.type(x)) if name == "sum" else lk.np.type(acc * lk.np.type(x))
            return float(acc)
        if k == "c":
            acc = lk.np.type(0 if name == "sum" else 1)
            with np.errstate(all="ignore"):
                for _, x in vals:
                    acc = lk.np.type(acc + lk.np.type(x)) if name == "sum" else lk.np.type(acc * lk.np.type(x))
            return complex(acc)
    if name in ("min", "max", "argmin", "argmax"):
        if not vals:
            if mask:
                return None
            if name in ("argmin", "argmax"):
                return -1
            if lk.dtype == "int64":
                return I64[1] if name == "min" else I64[0]
            if k == "f":
                return float("inf") if name == "min" else float("-inf")
            raise NoOpinion("identity of min/max for this dtype without mask_identity")
        if k == "c":
            key = lambda t: (t[1].real, t[1].imag)      # noqa: E731  (lexicographic, as the complex kernels do)
        elif k == "b":
            key = lambda t: int(t[1])                   # noqa: E731
        else:
            key = lambda t: t[1]                        # noqa: E731
        best = vals[0]
        for t in vals[1:]:
            if name in ("min", "argmin"):
                if key(t) < key(best):
                    best = t
            else:
                if key(t) > key(best):
                    best = t
        if name in ("argmin", "argmax"):
            return best[0]
        if k == "c":
            if name in ("min", "max"):
                raise NoOpinion("min/max of complex")
        return lk.encode(best[1])
    raise ValueError(name)


def reduce(v, name, axis, mask, keepdims, depth, lk):
    """reference reducer on a nested value of uniform `depth`"""
    k = posaxis(axis, depth)

    def combine(members, d):
        # members: [(coordinate along the reduced axis, value d levels above the leaves)]
        if d == 0:
            return reduce_group(name, members, lk, mask)
        lists = [(i, m) for i, m in members if m is not None]      # a missing list is skipped
        n = max([len(m) for _, m in lists] or [0])
        return [combine([(i, m[j]) for i, m in lists if j < len(m)], d - 1) for j in range(n)]

    def at_axis(lst):
        if not is_list(lst):
            raise Refuse("axis exceeds depth")
        out = combine(list(enumerate(lst)), depth - k - 1)
        return [out] if keepdims else out
    return map_level(v, k, at_axis)
