"""Reference semantics of broadcasting (C04) on typed nested values, written from the property statement and the
documentation of ak.broadcast_arrays, independent of src/awkward/_util.py.

Arguments are ("s", python scalar) or ("a", T, tagged values) with T the abstract type of vlib.gen and values as
gen.gen_values produces them (union members carry their arm as gen.U).

  * all arguments rectilinear (every list level regular, primitive leaves, no option/record/union): NumPy decides -
    value and error;
  * otherwise tree-left: the arrays have the same length and are walked in parallel from the outside in; at a position
    where some arguments are lists and others are not, the non-lists repeat across the list; lists met at the same
    position must have the same length, except that a *regular* dimension of length 1 repeats; a missing value in any
    argument makes the result missing there; records combine field by field (same field names required).
"""
from __future__ import print_function

import numpy as np

from vlib.gen import U
from vlib.oracles import Refuse, NoOpinion


def depth(T):
    t = T["t"]
    if t in ("list", "regular"):
        return 1 + depth(T["e"])
    if t == "option":
        return depth(T["e"])
    return 0


def is_rect(T, top=True):
    """rectilinear: an array of primitive leaves whose list levels below the top one are all regular"""
    t = T["t"]
    if t == "prim":
        return True
    if t == "regular":
        return is_rect(T["e"], False)
    return False


def _np(T, vals):
    """rectilinear (T, vals) -> numpy array"""
    leaf = T
    shape = []
    while leaf["t"] == "regular":
        shape.append(leaf["size"])
        leaf = leaf["e"]
    arr = np.array(vals, dtype=np.dtype(leaf["d"]))
    return arr.reshape([len(vals)] + shape)


def leaf_dtype(T):
    while T["t"] in ("list", "regular", "option"):
        T = T["e"]
    return T["d"] if T["t"] == "prim" else None


class Item(object):
    """one argument at one position: kind 's' (scalar constant), 'v' (typed value)"""
    __slots__ = ("T", "v", "scalar")

    def __init__(self, T, v, scalar=False):
        self.T, self.v, self.scalar = T, v, scalar


def _resolve(it):
    """strip union tags and option wrappers -> (Item or None for a missing value)"""
    T, v = it.T, it.v
    while True:
        if isinstance(v, U):
            if T["t"] != "union":
                raise NoOpinion("tagged value for a non-union type")
            T, v = T["arms"][v.arm], v.v
            continue
        if T["t"] == "option":
            if v is None:
                return None
            T = T["e"]
            continue
        if T["t"] == "union":
            raise NoOpinion("untagged union value")
        return Item(T, v)


def _missing_meets_mismatch(items):
    """the statement gives two rules for one position - a missing value in any argument gives a missing result, lists
    of different lengths raise - without saying which wins when both apply: abstain"""
    lens = set()
    for it in items:
        if it.scalar:
            continue
        try:
            r = _resolve(it)
        except NoOpinion:
            continue
        if r is not None and r.T["t"] in ("list", "regular") and not (r.T["t"] == "regular" and len(r.v) == 1):
            lens.add(len(r.v))
    if len(lens) > 1:
        raise NoOpinion("a missing value meets lists of different lengths at the same position")
    # ... or anywhere below that position in the arguments that are present
    rest = []
    for it in items:
        if it.scalar:
            rest.append(it)
            continue
        try:
            if _resolve(it) is not None:
                rest.append(it)
        except NoOpinion:
            continue
    if sum(1 for it in rest if not it.scalar) >= 2:
        try:
            combine(rest, lambda vals: (None,))
        except Refuse:
            raise NoOpinion("a missing value meets lists of different lengths below the same position")


def combine(items, leaf):
    """items: list of Item (one per argument) at the same position -> list of results, one per output of `leaf`
    leaf(list of (python/numpy scalar)) -> tuple of outputs"""
    res = []
    for it in items:
        if it.scalar:
            res.append(it)
            continue
        r = _resolve(it)
        if r is None:
            _missing_meets_mismatch(items)
            return None                                   # a missing value in any argument
        res.append(r)
    kinds = [("s" if it.scalar else it.T["t"]) for it in res]
    if any(k in ("string", "bytes", "unknown", "categorical") for k in kinds):
        raise NoOpinion("strings/unknown in broadcasting")
    lists = [i for i, k in enumerate(kinds) if k in ("list", "regular")]
    if lists:
        lens = [len(res[i].v) for i in lists]
        n = max(lens) if lens else 0
        allreg = all(kinds[i] == "regular" for i in lists)
        if any(kinds[i] == "regular" for i in lists) and any((i not in lists) and not it.scalar
                                                             for i, it in enumerate(res)):
            raise NoOpinion("an array without this list level meets a regular dimension (the statement only fixes "
                            "var-length levels, size-1 dimensions and all-regular arguments)")
        for i in lists:
            ln = len(res[i].v)
            if ln == n:
                continue
            if kinds[i] == "regular" and ln == 1:
                continue                                   # a regular dimension of length 1 repeats
            raise Refuse("lists of different lengths at the same position")
        if not allreg:
            # a var-length list meeting a regular one of size 1 with n == 0: nothing to do
            pass
        out = []
        for j in range(n):
            sub = []
            for i, it in enumerate(res):
                if i in lists:
                    ln = len(it.v)
                    sub.append(Item(it.T["e"], it.v[j if ln == n else 0]))
                else:
                    sub.append(it)
            out.append(combine(sub, leaf))
        return out
    recs = [i for i, k in enumerate(kinds) if k == "record"]
    if recs:
        keysets = []
        for i in recs:
            T = res[i].T
            ks = T["keys"] if T["keys"] is not None else [str(k) for k in range(len(T["fields"]))]
            keysets.append(ks)
        if any(set(ks) != set(keysets[0]) for ks in keysets):
            raise Refuse("records with different fields")
        istuple = all(res[i].T["keys"] is None for i in recs)
        outs = {}
        for pos, key in enumerate(keysets[0]):
            sub = []
            for i, it in enumerate(res):
                if i in recs:
                    T = it.T
                    ks = T["keys"] if T["keys"] is not None else [str(k) for k in range(len(T["fields"]))]
                    fi = ks.index(key)
                    fv = it.v[fi] if isinstance(it.v, tuple) else it.v[key]
                    sub.append(Item(T["fields"][fi], fv))
                else:
                    sub.append(it)
            outs[key] = combine(sub, leaf)
        if istuple:
            return ("__record__", tuple(outs[k] for k in keysets[0]))
        return ("__record__", dict(outs))
    # leaves
    args = []
    for it in res:
        if it.scalar:
            args.append(it.v)
        else:
            if it.T["t"] != "prim":
                raise NoOpinion("unexpected leaf type " + it.T["t"])
            args.append(np.dtype(it.T["d"]).type(it.v) if np.dtype(it.T["d"]).kind not in "Mm" else it.v)
    try:
        return ("__leaf__", leaf(args))
    except (TypeError, ValueError) as e:
        raise Refuse("the function refuses these leaf types: %s" % (e,))


def _select(r, k):
    """k-th output of a combined result"""
    if r is None:
        return None
    if isinstance(r, list):
        return [_select(x, k) for x in r]
    if isinstance(r, tuple) and r and r[0] == "__leaf__":
        return r[1][k]
    if isinstance(r, tuple) and r and r[0] == "__record__":
        v = r[1]
        if isinstance(v, tuple):
            return tuple(_select(x, k) for x in v)
        return dict((kk, _select(x, k)) for kk, x in v.items())
    raise ValueError(r)


def has_record(r):
    if isinstance(r, list):
        return any(has_record(x) for x in r)
    return isinstance(r, tuple) and bool(r) and r[0] == "__record__"


def broadcast(args, leaf, nout):
    """args: [("s", x) | ("a", T, vals)] -> list of nout nested results (top-level lists)"""
    arrays = [a for a in args if a[0] == "a"]
    if not arrays:
        raise NoOpinion("no array argument")
    n = len(arrays[0][2])
    if any(len(a[2]) != n for a in arrays):
        raise Refuse("arrays of different lengths")
    out = []
    for i in range(n):
        items = [Item(None, a[1], True) if a[0] == "s" else Item(a[1], a[2][i]) for a in args]
        out.append(combine(items, leaf))
    return [[_select(r, k) for r in out] for k in range(nout)], any(has_record(r) for r in out)


def pyval(x):
    if isinstance(x, np.generic):
        return x.item()
    return x


def has_record_type(T):
    t = T["t"]
    if t == "record":
        return True
    if "e" in T:
        return has_record_type(T["e"])
    if t == "union":
        return any(has_record_type(a) for a in T["arms"])
    return False


def typed_scalar(x):
    """a Python scalar argument enters broadcasting as a one-element array: bool -> bool, int -> int64, float ->
    float64 (so it takes part in dtype promotion as such an array would)"""
    if isinstance(x, bool):
        return np.bool_(x)
    if isinstance(x, int):
        return np.int64(x)
    if isinstance(x, float):
        return np.float64(x)
    return x


def regular_shape(T):
    """(inner shape, leaf type) when every list level is regular and the rest is a primitive or option[primitive]"""
    shape = []
    while T["t"] == "regular":
        shape.append(T["size"])
        T = T["e"]
    if T["t"] == "prim" or (T["t"] == "option" and T["e"]["t"] == "prim"):
        return shape, T
    return None


def all_regular(args):
    return all(a[0] == "s" or regular_shape(a[1]) is not None for a in args)


def _objarray(T, vals):
    shape, leafT = regular_shape(T)
    full = [len(vals)] + shape
    arr = np.empty(full, dtype=object)
    dt = leafT["d"] if leafT["t"] == "prim" else leafT["e"]["d"]

    def fill(v, idx, d):
        if d == len(full):
            arr[idx] = None if v is None else np.dtype(dt).type(v)
            return
        if len(v) != full[d]:
            raise NoOpinion("value does not have the regular shape of its type")
        for i, x in enumerate(v):
            fill(x, idx + (i,), d + 1)
    fill(vals, (), 0)
    return arr


def right_aligned(args, leaf, nout):
    """NumPy alignment (from the right) for all-regular arguments, None-aware"""
    objs = []
    for a in args:
        if a[0] == "s":
            o = np.empty((), dtype=object)
            o[()] = a[1]
            objs.append(o)
        else:
            objs.append(_objarray(a[1], a[2]))
    try:
        bs = np.broadcast_arrays(*objs)
    except ValueError as e:
        raise Refuse("NumPy refuses these shapes: %s" % (e,))
    shape = bs[0].shape
    outs = [np.empty(shape, dtype=object) for _ in range(nout)]
    for idx in np.ndindex(*shape):
        vals = [b[idx] for b in bs]
        if any(v is None for v in vals):
            for o in outs:
                o[idx] = None
            continue
        try:
            r = leaf(vals)
        except (TypeError, ValueError) as e:
            raise Refuse("the function refuses these leaf types: %s" % (e,))
        for o, x in zip(outs, r):
            o[idx] = x
    return [o.tolist() for o in outs]


def leaf_dtypes(T):
    t = T["t"]
    if t == "prim":
        return set([T["d"]])
    if "e" in T:
        return leaf_dtypes(T["e"])
    out = set()
    for x in T.get("fields", []) + T.get("arms", []):
        out |= leaf_dtypes(x)
    return out


def defined_on_types(fn, args):
    """is fn defined for every combination of leaf dtypes the arguments can contribute? (np.negative, np.sign and
    np.subtract refuse booleans by type, whether or not a boolean leaf is ever reached)"""
    import itertools
    choices = []
    for a in args:
        if a[0] == "s":
            choices.append([a[1]])
        else:
            choices.append([np.dtype(d).type(1) for d in sorted(leaf_dtypes(a[1]))])
    for combo in itertools.product(*choices):
        try:
            with np.errstate(all="ignore"):
                fn(*combo)
        except (TypeError, ValueError):
            return False
    return True


def ufunc(fn, args):
    """-> expected model value of fn(*args); Refuse when an error is required"""
    args = [("s", typed_scalar(a[1])) if a[0] == "s" else a for a in args]
    arrays = [a for a in args if a[0] == "a"]
    if not defined_on_types(fn, args):
        raise NoOpinion("the function is not defined for these leaf types (outside the numeric ufunc domain)")
    if all_regular(args) and not all(is_rect(a[1]) for a in arrays):
        def leaf_r(vals):
            with np.errstate(all="ignore"):
                return (pyval(fn(*vals)),)
        return right_aligned(args, leaf_r, 1)[0], None
    if any(has_record_type(a[1]) for a in arrays):
        raise NoOpinion("ufuncs on record types (need behaviors; the statement is about numeric leaves)")
    if all(is_rect(a[1]) for a in arrays):
        nargs = [a[1] if a[0] == "s" else _np(a[1], a[2]) for a in args]
        try:
            with np.errstate(all="ignore"):
                r = fn(*nargs)
        except (ValueError, TypeError) as e:
            raise Refuse("NumPy refuses: %s" % (e,))
        return np.asarray(r).tolist(), str(np.asarray(r).dtype)

    def leaf(vals):
        with np.errstate(all="ignore"):
            return (pyval(fn(*vals)),)
    (out,), rec = broadcast(args, leaf, 1)
    if rec:
        raise Refuse("ufuncs are not defined on records")
    return out, None


def broadcast_arrays(args):
    """-> list of expected model values, one per argument"""
    def leaf(vals):
        return tuple(pyval(v) for v in vals)
    args = [("s", typed_scalar(a[1])) if a[0] == "s" else a for a in args]
    if all_regular(args):
        return right_aligned(args, leaf, len(args))
    outs, _rec = broadcast(args, leaf, len(args))
    return outs
