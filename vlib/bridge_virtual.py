"""ctypes side of bridge/akbridge_virtual.cpp: VirtualArray with test-controlled generator / cache doubles (their
behaviour is scripted here and every call they receive is journalled) and IrregularlyPartitionedArray."""
from __future__ import print_function

import ctypes
import json
import random
from ctypes import c_void_p, c_char_p, c_int, c_int64, POINTER, CFUNCTYPE

from vlib.bridge import Handle, AkError  # noqa: F401

GEN_CB = CFUNCTYPE(c_void_p, c_int64)
GET_CB = CFUNCTYPE(c_void_p, c_int64, c_char_p)
SET_CB = CFUNCTYPE(None, c_int64, c_char_p, c_void_p)
BROKEN_CB = CFUNCTYPE(c_int, c_int64)


def declare(L):
    if getattr(L, "_virtual_declared", False):
        return
    vp, cp, i, i64 = c_void_p, c_char_p, c_int, c_int64
    S = {
        "akb_generator_new": (vp, [vp, i64, GEN_CB, i64]), "akb_generator_free": (None, [vp]),
        "akb_generator_length": (i64, [vp]), "akb_generator_form": (vp, [vp]),
        "akb_generator_generate_and_check": (vp, [vp]),
        "akb_cache_new": (vp, [GET_CB, SET_CB, BROKEN_CB, i64]), "akb_cache_free": (None, [vp]),
        "akb_cache_newkey": (vp, []),
        "akb_virtual": (vp, [vp, vp, cp]), "akb_virtual_array": (vp, [vp]), "akb_virtual_peek": (vp, [vp]),
        "akb_virtual_cache_key": (vp, [vp]), "akb_virtual_generator": (vp, [vp]), "akb_is_virtual": (i, [vp]),
        "akb_materialize": (vp, [vp]), "akb_box_copy": (vp, [vp]),
        "akb_part_new": (vp, [POINTER(vp), i64, POINTER(i64), i64]), "akb_part_free": (None, [vp]),
        "akb_part_numpartitions": (i64, [vp]), "akb_part_length": (i64, [vp]), "akb_part_partition": (vp, [vp, i64]),
        "akb_part_start": (i64, [vp, i64]), "akb_part_stop": (i64, [vp, i64]),
        "akb_part_index_at": (i, [vp, i64, POINTER(i64), POINTER(i64)]),
        "akb_part_getitem_at": (vp, [vp, i64]),
        "akb_part_getitem_range": (vp, [vp, i, i64, i, i64, i, i64]),
        "akb_part_repartition": (vp, [vp, POINTER(i64), i64]),
        "akb_part_tojson": (vp, [vp, i, i64]), "akb_part_tojson_file": (i, [vp, cp, i, i64, i64]),
        "akb_part_tostring": (vp, [vp]), "akb_part_shallow_copy": (vp, [vp]),
    }
    for name, (res, args) in S.items():
        f = getattr(L, name)
        f.restype = res
        f.argtypes = args
    L._virtual_declared = True


def materialize(b, h):
    declare(b.L)
    return b._c(b.L.akb_materialize(h.p))


def is_virtual(b, h):
    declare(b.L)
    return b._n(b.L.akb_is_virtual(h.p)) == 1


class World(object):
    """One world = the doubles of one history plus their journal.

    journal entries: ("gen", gid, ncall, outcome) ("get", cid, key, "hit"|"miss"|"evicted") ("set", cid, key, stored)
    ("broken?", cid, answer)"""

    def __init__(self, b, seed=0):
        declare(b.L)
        self.b = b
        self.L = b.L
        self.rng = random.Random(seed)
        self.journal = []
        self.gens = {}
        self.caches = {}
        self._keep = []
        # one set of C callbacks per world; `user` selects the double
        self._gen_cb = GEN_CB(self._on_gen)
        self._get_cb = GET_CB(self._on_get)
        self._set_cb = SET_CB(self._on_set)
        self._broken_cb = BROKEN_CB(self._on_broken)

    # ---------------------------------------------------------------- doubles
    def generator(self, script, form=None, length=-1):
        """script = list of ("ok", content handle) | ("fail",); call n uses script[min(n, len-1)]"""
        gid = len(self.gens)
        self.gens[gid] = {"script": script, "calls": 0}
        p = self.L.akb_generator_new(form.p if form is not None else None, length, self._gen_cb, gid)
        if not p:
            self.b._raise()
        return Handle(self.b, p, self.L.akb_generator_free), gid

    def cache(self, policy, arg=None):
        """policy: keep | forget (set is ignored) | evict_p (arg = probability that a get finds the key evicted) |
        evict_at (arg = set of get ordinals at which the whole cache is emptied first) | broken"""
        cid = len(self.caches)
        self.caches[cid] = {"policy": policy, "arg": arg, "store": {}, "gets": 0, "sets": 0}
        p = self.L.akb_cache_new(self._get_cb, self._set_cb, self._broken_cb, cid)
        if not p:
            self.b._raise()
        return Handle(self.b, p, self.L.akb_cache_free), cid

    def virtual(self, gen, cache=None, key=None):
        p = self.L.akb_virtual(gen.p, cache.p if cache is not None else None,
                               key.encode() if key is not None else None)
        return self.b._c(p)

    # ---------------------------------------------------------------- callbacks (never raise into C)
    def _box(self, h):
        return self.L.akb_box_copy(h.p)

    def _on_gen(self, gid):
        try:
            g = self.gens[gid]
            n = g["calls"]
            g["calls"] += 1
            step = g["script"][min(n, len(g["script"]) - 1)]
            self.journal.append(("gen", gid, n, step[0]))
            if step[0] == "fail":
                return None
            return self._box(step[1])
        except Exception as e:      # noqa
            self.journal.append(("harness-error", "gen", repr(e)))
            return None

    def _on_get(self, cid, key):
        try:
            c = self.caches[cid]
            n = c["gets"]
            c["gets"] += 1
            key = key.decode()
            pol = c["policy"]
            if pol == "evict_at" and n in c["arg"]:
                c["store"].clear()
                self.journal.append(("evict-all", cid, n))
            if pol == "evict_p" and key in c["store"] and self.rng.random() < c["arg"]:
                del c["store"][key]
                self.journal.append(("get", cid, key, "evicted"))
                return None
            h = c["store"].get(key)
            self.journal.append(("get", cid, key, "hit" if h is not None else "miss"))
            if h is None:
                return None
            return self._box(h)
        except Exception as e:      # noqa
            self.journal.append(("harness-error", "get", repr(e)))
            return None

    def _on_set(self, cid, key, boxed):
        try:
            c = self.caches[cid]
            c["sets"] += 1
            key = key.decode()
            h = Handle(self.b, boxed, self.L.akb_free)
            stored = c["policy"] in ("keep", "evict_p", "evict_at")
            if stored:
                c["store"][key] = h
            self.journal.append(("set", cid, key, stored))
        except Exception as e:      # noqa
            self.journal.append(("harness-error", "set", repr(e)))

    def _on_broken(self, cid):
        try:
            ans = 1 if self.caches[cid]["policy"] == "broken" else 0
            return ans
        except Exception:
            return 0

    # ---------------------------------------------------------------- queries
    def calls(self, gid):
        return self.gens[gid]["calls"]

    def count(self, kind):
        return sum(1 for e in self.journal if e[0] == kind)

    def harness_errors(self):
        return [e for e in self.journal if e[0] == "harness-error"]

    def array(self, vh):
        return self.b._c(self.L.akb_virtual_array(vh.p))

    def peek(self, vh):
        p = self.L.akb_virtual_peek(vh.p)
        if not p:
            if self.L.akb_error_kind() != 0:
                self.b._raise()
            return None
        return Handle(self.b, p, self.L.akb_free)

    def cache_key(self, vh):
        return self.b._s(self.L.akb_virtual_cache_key(vh.p))


# -------------------------------------------------------------------- partitioned arrays

class Partitioned(object):
    def __init__(self, b, p):
        declare(b.L)
        self.b, self.L = b, b.L
        if not p:
            b._raise()
        self.h = Handle(b, p, b.L.akb_part_free)

    @classmethod
    def new(cls, b, handles, stops):
        declare(b.L)
        arr = (c_void_p * max(1, len(handles)))(*[h.p for h in handles])
        st = (c_int64 * max(1, len(stops)))(*stops)
        return cls(b, b.L.akb_part_new(arr, len(handles), st, len(stops)))

    def numpartitions(self):
        return self.b._n(self.L.akb_part_numpartitions(self.h.p), bad=-999)

    def length(self):
        return self.b._n(self.L.akb_part_length(self.h.p), bad=-999)

    def partition(self, i):
        return self.b._c(self.L.akb_part_partition(self.h.p, i))

    def start(self, i):
        return self.b._n(self.L.akb_part_start(self.h.p, i), bad=-999)

    def stop(self, i):
        return self.b._n(self.L.akb_part_stop(self.h.p, i), bad=-999)

    def stops(self):
        return [self.stop(i) for i in range(self.numpartitions())]

    def index_at(self, at):
        a, c = c_int64(), c_int64()
        self.b._n(self.L.akb_part_index_at(self.h.p, at, ctypes.byref(a), ctypes.byref(c)))
        return a.value, c.value

    def getitem_at(self, at):
        return self.b._c(self.L.akb_part_getitem_at(self.h.p, at))

    def getitem_range(self, start, stop, step):
        return Partitioned(self.b, self.L.akb_part_getitem_range(
            self.h.p, int(start is not None), start or 0, int(stop is not None), stop or 0,
            int(step is not None), step or 0))

    def repartition(self, stops):
        st = (c_int64 * max(1, len(stops)))(*stops)
        return Partitioned(self.b, self.L.akb_part_repartition(self.h.p, st, len(stops)))

    def tojson(self, pretty=False, maxdecimals=-1):
        return self.b._s(self.L.akb_part_tojson(self.h.p, int(pretty), maxdecimals))

    def tojson_file(self, path, pretty=False, maxdecimals=-1, buffersize=65536):
        if self.L.akb_part_tojson_file(self.h.p, path.encode(), int(pretty), maxdecimals, buffersize) != 0:
            self.b._raise()

    def tostring(self):
        return self.b._s(self.L.akb_part_tostring(self.h.p))

    def values(self):
        """model values of the partitions, concatenated"""
        from vlib import model
        out = []
        for i in range(self.numpartitions()):
            v = model.value(self.b.describe(self.partition(i)))
            out.extend(v)
        return out

    def partition_lengths(self):
        return [self.b.length(self.partition(i)) for i in range(self.numpartitions())]
