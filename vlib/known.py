"""Mechanism predicates for recorded (not repaired) genuine defects.

A predicate looks at the violation's case descriptor (the input / operation) and, for crashes, at the call site in
the sanitizer report.  It never looks at hashes, seeds or random values.  The list of mechanisms that are actually
*suppressed* is /verif/known_findings.json (status == "known"); a predicate without such an entry suppresses nothing.
"""
import re


def frames(vio):
    det = vio.get("detail") or {}
    rep = det.get("report") if isinstance(det, dict) else None
    if not rep:
        return []
    return re.findall(r"in (\S+).*? /\S*?/(src/[\w./-]+):(\d+)", rep)


def asan_kind(vio):
    det = vio.get("detail") or {}
    rep = det.get("report") if isinstance(det, dict) else ""
    m = re.search(r"ERROR: AddressSanitizer: ([\w-]+)", rep or "")
    return m.group(1) if m else None


def ops_of(vio):
    case = vio.get("case") or {}
    return [o.get("op") for o in case.get("ops", [])]


PREDICATES = []


def mechanism(name):
    def deco(f):
        PREDICATES.append((name, f))
        return f
    return deco


def classify(vio):
    for name, pred in PREDICATES:
        try:
            if pred(vio):
                return name
        except Exception:
            continue
    return None


# ---------------------------------------------------------------- crashes: identified by call site

def callsite(vio):
    """first frame of the sanitizer/faulthandler report that lies in the repository: 'file.cpp:function'"""
    det = vio.get("detail") or {}
    rep = det.get("report") if isinstance(det, dict) else None
    if not rep:
        return None
    for line in rep.split("\n"):
        m = re.match(r"\s*#\d+ 0x[0-9a-f]+ in (.+?) /\S*?/(src/[\w./-]+?):\d+", line)
        if not m:
            continue
        fn, path = m.group(1), m.group(2)
        if "/bridge/" in path:
            continue
        fn = re.sub(r"\(.*$", "", fn)            # drop argument lists
        fn = re.sub(r"<.*?>", "", fn)            # drop template arguments
        fn = fn.replace("Error ", "").replace("awkward::", "").strip()
        fn = fn.split(" ")[-1]
        if fn in ("operator", "operator()"):
            continue
        return "%s:%s" % (path.split("/")[-1], fn)
    return None


def _report(vio):
    det = vio.get("detail") or {}
    return (det.get("report") if isinstance(det, dict) else "") or ""


@mechanism("F14-invalid-layout-tojson")
def _f14a(vio):
    case = vio.get("case") or {}
    return vio.get("kind") == "process-death" and case.get("mode") == "invalid" and \
        "awkward::Content::tojson" in _report(vio)


@mechanism("F14-invalid-layout-tostring")
def _f14b(vio):
    case = vio.get("case") or {}
    return vio.get("kind") == "process-death" and case.get("mode") == "invalid" and \
        "awkward::Content::tostring" in _report(vio)


@mechanism("F15-is_unique-nested")
def _f15(vio):
    return vio.get("kind") == "process-death" and "is_subrange_equal" in _report(vio)


@mechanism("F10-reduce-nonlocal")
def _f10(vio):
    rep = _report(vio)
    return vio.get("kind") == "process-death" and "awkward_ListOffsetArray_reduce_nonlocal_" in rep


_classify_predicates = classify


def classify(vio):          # noqa: F811
    m = _classify_predicates(vio)
    if m:
        return m
    if vio.get("kind") in ("process-death", "hang"):
        cs = callsite(vio)
        if cs:
            return "crash@" + cs
    return None
