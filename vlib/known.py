"""Mechanism predicates for recorded (not repaired) genuine defects.

A predicate looks at the violation's case descriptor (the input / operation) and, for crashes, at the call site in
the sanitizer report.  It never looks at hashes, seeds or random values.  The list of mechanisms that are actually
*suppressed* is /verif/known_findings.json (status == "known"); a predicate without such an entry suppresses nothing.
"""
import re


def frames(vio):
    det = vio.get("detail") or {}
    rep = det.get("report") if isinstance(det, dict) else None
    if not rep:
        return []
    return re.findall(r"in (\S+).*? /\S*?/(src/[\w./-]+):(\d+)", rep)


def asan_kind(vio):
    det = vio.get("detail") or {}
    rep = det.get("report") if isinstance(det, dict) else ""
    m = re.search(r"ERROR: AddressSanitizer: ([\w-]+)", rep or "")
    return m.group(1) if m else None


def ops_of(vio):
    case = vio.get("case") or {}
    return [o.get("op") for o in case.get("ops", [])]


PREDICATES = []


def mechanism(name):
    def deco(f):
        PREDICATES.append((name, f))
        return f
    return deco


def classify(vio):
    for name, pred in PREDICATES:
        try:
            if pred(vio):
                return name
        except Exception:
            continue
    return None


# ---------------------------------------------------------------- crashes: identified by call site

def callsite(vio):
    """first frame of the sanitizer/faulthandler report that lies in the repository: 'file.cpp:function'"""
    det = vio.get("detail") or {}
    rep = det.get("report") if isinstance(det, dict) else None
    if not rep:
        return None
    for line in rep.split("\n"):
        m = re.match(r"\s*#\d+ 0x[0-9a-f]+ in (.+?) /\S*?/(src/[\w./-]+?):\d+", line)
        if not m:
            continue
        fn, path = m.group(1), m.group(2)
        if "/bridge/" in path:
            continue
        fn = re.sub(r"\(.*$", "", fn)            # drop argument lists
        fn = re.sub(r"<.*?>", "", fn)            # drop template arguments
        fn = fn.replace("Error ", "").replace("awkward::", "").strip()
        fn = fn.split(" ")[-1]
        if fn in ("operator", "operator()"):
            continue
        return "%s:%s" % (path.split("/")[-1], fn)
    return None


def _report(vio):
    det = vio.get("detail") or {}
    return (det.get("report") if isinstance(det, dict) else "") or ""


@mechanism("F14-invalid-layout-tojson")
def _f14a(vio):
    case = vio.get("case") or {}
    return vio.get("kind") == "process-death" and case.get("mode") == "invalid" and \
        "awkward::Content::tojson" in _report(vio)


@mechanism("F14-invalid-layout-tostring")
def _f14b(vio):
    case = vio.get("case") or {}
    return vio.get("kind") == "process-death" and case.get("mode") == "invalid" and \
        "awkward::Content::tostring" in _report(vio)


@mechanism("F15-is_unique-nested")
def _f15(vio):
    return vio.get("kind") == "process-death" and "is_subrange_equal" in _report(vio)


C06_KINDS = ("sort-predicate", "unexpected-error", "wrong-value", "value-differs", "outcome-kind-differs")


def _layouts(vio):
    case = vio.get("case") or {}
    out = [case["layout"]] if isinstance(case.get("layout"), dict) else []
    for op in case.get("ops", []) or []:
        out.extend(op.get("others", []) or [])
    if isinstance(case.get("op"), dict):
        out.extend(case["op"].get("others", []) or [])
    for k in ("A", "B", "C"):
        if isinstance(case.get(k), dict):
            out.append(case[k])
    return out


def _has_zero_field_record(vio):
    from vlib import model
    for d in _layouts(vio):
        for _p, n in model.walk(d):
            if n["c"] == "RecordArray" and not n["contents"]:
                return True
    return False


def _has_categorical(vio, with_empty_string=False):
    from vlib import model
    for d in _layouts(vio):
        for _p, n in model.walk(d):
            if model.param(n, "__array__") == "categorical":
                if not with_empty_string:
                    return True
                ct = n["content"]
                try:
                    if model.param(ct, "__array__") == "string" and "" in model.value(ct):
                        return True
                except Exception:
                    pass
    return False


@mechanism("F17-bare-char-result")
def _f17(vio):
    det = vio.get("detail") or {}
    msg = str(det.get("validityerror", ""))
    return vio.get("kind") == "invalid-result" and (
        '"char\\" must be directly inside' in repr(msg) or '"char" must be directly inside' in msg or
        '"byte" must be directly inside' in msg or 'must directly contain a node with __array__' in msg)


@mechanism("F18-categorical-kept")
def _f18(vio):
    det = vio.get("detail") or {}
    msg = str(det.get("validityerror", ""))
    return vio.get("kind") == "invalid-result" and "requires contents to be unique" in msg and _has_categorical(vio)


@mechanism("F6-categorical-empty-string")
def _f6(vio):
    det = vio.get("detail") or {}
    msg = str(det.get("validityerror", ""))
    return vio.get("kind") == "valid-array-rejected" and "requires contents to be unique" in msg and \
        _has_categorical(vio, with_empty_string=True)


@mechanism("F20-zero-field-record-length")
def _f20(vio):
    det = vio.get("detail") or {}
    msg = str(det.get("validityerror", "")) + str(det.get("model", ""))
    return vio.get("kind") == "invalid-result" and _has_zero_field_record(vio) and \
        ("len(content)" in msg or "len(recordarray)" in msg or "< length" in msg)


@mechanism("F21-sort-through-records")
def _f21(vio):
    from vlib import model
    det = vio.get("detail") or {}
    chain = det.get("chain") or []
    if vio.get("kind") != "invalid-result" or not chain or chain[-1] not in ("sort", "argsort", "num"):
        return False
    if "RecordArray" in (det.get("result_classes") or []) or "Record" in (det.get("result_classes") or []):
        return True
    return any(n["c"] == "RecordArray" for d in _layouts(vio) for _p, n in model.walk(d))


def _op_of(vio):
    det = vio.get("detail") or {}
    op = det.get("op") if isinstance(det, dict) else None
    if isinstance(op, dict):
        return op
    case = vio.get("case") or {}
    if isinstance(case.get("op"), dict):
        return case["op"]
    return {}


def _has_class(vio, names, keys=("layout", "A", "B", "C")):
    from vlib import model
    case = vio.get("case") or {}
    ds = [case[k] for k in keys if isinstance(case.get(k), dict)]
    op = _op_of(vio)
    ds.extend(op.get("others", []) or [])
    if isinstance(case.get("op"), dict):
        ds.extend(case["op"].get("others", []) or [])
    for d in ds:
        for _p, n in model.walk(d):
            if n["c"] in names:
                return True
    return False


@mechanism("F28-reduce-sort-through-records")
def _f28(vio):
    op = _op_of(vio)
    if (vio.get("case") or {}).get("mode") == "axis-none":
        return False          # axis=None never resolves an axis inside record fields (C03's lane-P stream)
    return vio.get("kind") in ("outcome-kind-differs", "value-differs", "wrong-value", "unexpected-error") and \
        op.get("op") in ("reduce", "sort", "argsort") and _has_class(vio, ("RecordArray",))


@mechanism("F29-merge-indexedarray-specialization")
def _f29(vio):
    return "unrecognized IndexedArray specialization" in str(vio.get("detail"))


@mechanism("F24-merge-unknown-drops-parameters")
def _f24(vio):
    if _op_of(vio).get("op") != "mergemany":
        return False
    if vio.get("kind") == "value-differs" and _has_class(vio, ("EmptyArray",)):
        return True
    if vio.get("kind") in ("wrong-value", "value-differs"):
        from vlib import model
        for d in _layouts(vio):
            for _p, n in model.walk(d):
                if model.param(n, "__array__") in ("string", "bytestring"):
                    return True
    return False


@mechanism("F25-merge-regular-vs-numpy")
def _f25(vio):
    if vio.get("kind") not in ("outcome-kind-differs", "unexpected-error") or _op_of(vio).get("op") != "mergemany":
        return False
    import re
    if not re.search(r"cannot merge (ListArray|ListOffsetArray|RegularArray|NumpyArray)\w* with "
                     r"(ListArray|ListOffsetArray|RegularArray|NumpyArray)", str(vio.get("detail"))):
        return False
    from vlib import model
    nd = any(n["c"] == "NumpyArray" and len(n["shape"]) > 1 for d in _layouts(vio) for _p, n in model.walk(d))
    return nd or _has_class(vio, ("RegularArray",))


@mechanism("F26-combinations-through-records")
def _f26(vio):
    return vio.get("kind") == "value-differs" and _op_of(vio).get("op") == "combinations" and \
        _has_class(vio, ("RecordArray",))


@mechanism("F32-num-axis0-recordarray")
def _f32(vio):
    op = _op_of(vio)
    det = vio.get("detail") or {}
    if vio.get("kind") in ("value-differs", "wrong-value") and op.get("op") == "localindex" and \
            _has_class(vio, ("RecordArray",)):
        return True
    return vio.get("kind") in ("value-differs", "wrong-value") and op.get("op") == "num" and \
        _has_class(vio, ("RecordArray",)) and \
        ("{" in str(det.get("A", "")) + str(det.get("B", "")) + str(det.get("C", "")) + str(det.get("got", "")))


@mechanism("F33-fillna-unmasked-recurses")
def _f33(vio):
    return vio.get("kind") == "value-differs" and _op_of(vio).get("op") == "fillna" and \
        _has_class(vio, ("UnmaskedArray",))


@mechanism("F10b-nonlocal-positions")
def _f10b(vio):
    op = _op_of(vio)
    if vio.get("kind") != "value-differs":
        return False
    positional = op.get("op") == "argsort" or (op.get("op") == "reduce" and op.get("name") in ("argmin", "argmax"))
    if not positional:
        return False
    from vlib import gen
    case = vio.get("case") or {}
    T = case.get("T")
    if not T:
        return False
    hi = gen.depth_of(T)[1]
    ax = op.get("axis", -1)
    pos = ax if ax >= 0 else hi + ax
    return pos < hi - 1          # not the innermost axis


OPTC = ("IndexedOptionArray", "ByteMaskedArray", "BitMaskedArray", "UnmaskedArray")


def _list_with_origin_over_option(vio):
    from vlib import model
    for d in _layouts(vio):
        for _p, n in model.walk(d):
            if n["c"] in ("ListOffsetArray", "ListArray"):
                first = (n.get("offsets") or n.get("starts"))["v"][:1]
                if first and first[0] != 0:
                    return _has_class(vio, OPTC)
    return False


@mechanism("F35-sort-options-offset-origin")
def _f35(vio):
    if _op_of(vio).get("op") not in ("sort", "argsort"):
        return False
    if vio.get("kind") == "value-differs":
        return _has_class(vio, OPTC)
    return vio.get("kind") in C06_KINDS and _list_with_origin_over_option(vio)


@mechanism("F41-unstable-sort-nan")
def _f41(vio):
    from vlib import model
    op = _op_of(vio)
    if vio.get("kind") not in C06_KINDS + ("value-differs",) or op.get("op") != "sort" or op.get("stable"):
        return False
    for d in _layouts(vio):
        for _p, n in model.walk(d):
            if n["c"] == "NumpyArray" and n["dtype"] in ("float32", "float64"):
                import numpy as np
                if np.isnan(model.np_view(n)).any():
                    return True
    return False


@mechanism("F42-argsort-all-missing")
def _f42(vio):
    from vlib import model
    if vio.get("kind") not in C06_KINDS or _op_of(vio).get("op") != "argsort":
        return False
    if "does not have the input's depth" not in str((vio.get("detail") or {}).get("why", "")):
        return False
    return _has_class(vio, OPTC) and "None" in str((vio.get("detail") or {}).get("input", ""))


def _T_has(T, pred):
    if pred(T):
        return True
    for k in ("e",):
        if k in T and isinstance(T[k], dict) and _T_has(T[k], pred):
            return True
    for k in ("fields", "arms"):
        for x in T.get(k, []) or []:
            if _T_has(x, pred):
                return True
    return False


def _axis_is_outer(vio):
    from vlib import gen
    case = vio.get("case") or {}
    T, op = case.get("T"), _op_of(vio)
    if not T or "axis" not in op:
        return False
    hi = gen.depth_of(T)[1]
    ax = op["axis"]
    pos = ax if ax >= 0 else hi + ax
    return pos < hi - 1





@mechanism("F10c-sort-outer-axis")
def _f10c(vio):
    return vio.get("kind") in C06_KINDS and _op_of(vio).get("op") in ("sort", "argsort") and _axis_is_outer(vio)


@mechanism("F36-sort-missing-lists")
def _f36(vio):
    case = vio.get("case") or {}
    T = case.get("T")
    if vio.get("kind") not in C06_KINDS or _op_of(vio).get("op") not in ("sort", "argsort") or not T:
        return False
    return _T_has(T, lambda t: t["t"] == "option" and t["e"]["t"] in ("list", "regular"))


@mechanism("F38-argsort-option-strings")
def _f38(vio):
    case = vio.get("case") or {}
    T = case.get("T")
    if vio.get("kind") not in C06_KINDS or _op_of(vio).get("op") != "argsort" or not T:
        return False
    return _T_has(T, lambda t: t["t"] == "option" and t["e"]["t"] in ("string", "bytes"))


@mechanism("F39-string-sort-descending-stability")
def _f39(vio):
    case = vio.get("case") or {}
    op = _op_of(vio)
    return vio.get("kind") == "sort-predicate" and case.get("strings") and op.get("stable") and \
        not op.get("ascending") and "stability" in str((vio.get("detail") or {}).get("why", ""))


@mechanism("F10d-reduce-outer-axis")
def _f10d(vio):
    """outer-axis reductions: known-bad for depth >= 3; for depth 2 (axis=0 of an array of lists) only the positional
    reducers are known-bad, and only behind an IndexedArray or with missing lists (measured on the unchanged tree:
    0 failures in 1500 depth-2 cases outside that sub-domain)"""
    if vio.get("kind") not in ("wrong-value", "unexpected-error", "value-differs", "outcome-kind-differs"):
        return False
    op = _op_of(vio)
    if op.get("op") != "reduce" or not _axis_is_outer(vio):
        return False
    from vlib import gen
    T = (vio.get("case") or {}).get("T")
    hi = gen.depth_of(T)[1]
    if hi >= 3:
        return True
    positional = op.get("name") in ("argmin", "argmax")
    missing_lists = _T_has(T, lambda t: t["t"] == "option" and t["e"]["t"] in ("list", "regular"))
    return positional and (missing_lists or _has_class(vio, ("IndexedArray",)))


@mechanism("F45-empty-index-array")
def _f45(vio):
    items = _slice_items(vio)
    return vio.get("kind") in ("wrong-value", "unexpected-error", "process-death", "value-differs",
                               "outcome-kind-differs", "invalid-result") and \
        _op_of(vio).get("op") == "getitem" and any(_empty_index_item(it) for it in items)


@mechanism("F46-jagged-index-on-nd-numpy")
def _f46(vio):
    return "NumpyArray::getitem_next_jagged" in str(vio.get("detail"))


@mechanism("F47-joint-advanced-through-option")
def _f47(vio):
    items = _slice_items(vio)
    return vio.get("kind") in ("wrong-value", "value-differs") and _op_of(vio).get("op") == "getitem" and \
        sum(1 for it in items if it.get("t") == "array") >= 2 and _has_class(vio, OPTC)


@mechanism("F49b-complex-to-bool-real-part")
def _f49b(vio):
    op = _op_of(vio)
    if vio.get("kind") != "wrong-value" or op.get("op") != "numbers_to_type" or op.get("name") != "bool":
        return False
    from vlib import model
    return any(n["c"] == "NumpyArray" and n["dtype"].startswith("complex") for d in _layouts(vio)
               for _p, n in model.walk(d))


@mechanism("F51-field-between-advanced-indexes")
def _f51(vio):
    return vio.get("kind") == "commutation-outcome" and \
        "advanced indexes separated by basic indexes" in str(vio.get("detail"))


def _obj_kinds(vio):
    out = set()

    def rec(o):
        if isinstance(o, dict) and "k" in o:
            out.add(o["k"])
            v = o.get("v")
            if isinstance(v, list):
                for x in v:
                    rec(x)
    for o in (vio.get("case") or {}).get("objs", []) or []:
        rec(o)
    return out


@mechanism("F55-builder-string-into-bytestring")
def _f55(vio):
    return vio.get("kind") in ("wrong-value", "growth-dependent", "c-api-differs") and \
        {"bytes", "str"} <= _obj_kinds(vio) and "objs" in (vio.get("case") or {})


@mechanism("F56-builder-datetime-union-snapshot")
def _f56(vio):
    return vio.get("kind") == "well-nested-history-raised" and "dtype not in {boolean" in str(vio.get("detail")) and \
        bool({"datetime", "timedelta"} & _obj_kinds(vio))


@mechanism("F64-builder-clear-inside-union")
def _f64(vio):
    return vio.get("kind") in ("clear-replay-raised", "clear-replay-differs")


@mechanism("F59-builder-tuples-of-different-size")
def _f59(vio):
    return vio.get("kind") in ("well-nested-history-raised", "well-nested-prefix-raised") and \
        "is out of bounds for a tuple with number of fields" in str(vio.get("detail"))


@mechanism("F61-builder-append-string-element")
def _f61(vio):
    return vio.get("kind") == "invalid-snapshot" and "only allowed for ListArray" in str(vio.get("detail")) and \
        (vio.get("case") or {}).get("mode") == "append"


@mechanism("F65-masked-wraps-lazy-carry")
def _f65(vio):
    import re
    det = vio.get("detail") or {}
    return vio.get("kind") == "invalid-result" and bool(re.search(
        r"(ByteMaskedArray|BitMaskedArray|UnmaskedArray) contains IndexedArray", str(det.get("validityerror", ""))))


@mechanism("F42b-sort-option-invalid-index")
def _f42b(vio):
    det = vio.get("detail") or {}
    chain = det.get("chain") or []
    return vio.get("kind") == "invalid-result" and chain and chain[-1] in ("sort", "argsort") and \
        "index[i] >= len(content)" in str(det.get("validityerror", ""))


@mechanism("F15b-is_unique-strings")
def _f15b(vio):
    from vlib import model
    det = vio.get("detail") or {}
    if vio.get("kind") != "valid-array-rejected" or "requires contents to be unique" not in str(det.get("validityerror", "")):
        return False
    for d in _layouts(vio):
        for _p, n in model.walk(d):
            if model.param(n, "__array__") == "categorical" and model.param(n["content"], "__array__") == "string":
                return True
    return False


@mechanism("F67-validity-categorical-unsortable")
def _f67(vio):
    return vio.get("kind") == "validity-check-raised" and "FIXME: sort for" in str(vio.get("detail"))


@mechanism("F69-tojson-uint64-above-int64")
def _f69(vio):
    if vio.get("kind") != "json-output-differs":
        return False
    from vlib import model
    import numpy as np
    for d in _layouts(vio):
        for _p, n in model.walk(d):
            if n["c"] == "NumpyArray" and n["dtype"] == "uint64":
                a = model.np_view(n)
                if a.size and int(a.max()) >= (1 << 63):
                    return True
    return False


@mechanism("F70-merge-tuple-with-record")
def _f70(vio):
    from vlib import model
    if vio.get("kind") not in ("wrong-value", "value-differs") or _op_of(vio).get("op") != "mergemany":
        return False
    kinds = set()
    for d in _layouts(vio):
        for _p, n in model.walk(d):
            if n["c"] == "RecordArray" and n["contents"]:
                kinds.add("tuple" if n["keys"] is None else "named")
    return kinds == {"tuple", "named"}


@mechanism("F79-lazy-range-of-empty-record-with-bitmask")
def _f79(vio):
    """lazy range slice whose Form predicts ByteMaskedArray for a BitMaskedArray field of a nested *zero-length*
    RecordArray, which RecordArray::getitem_range_nowrap returns unchanged (full-range shortcut)"""
    from vlib import model
    det = vio.get("detail") or {}
    if vio.get("kind") != "lazy-outcome-differs":
        return False
    msg = ((det.get("lazy") or {}).get("msg") or "")
    if "does not conform to expected form" not in msg:
        return False
    case = vio.get("case") or {}
    ranged = (case.get("prefix") or {}).get("op") == "getitem_range" or \
        any(o.get("op") in ("getitem_range", "getitem") for o in case.get("ops", []))
    if not ranged:
        return False
    for d in _layouts(vio):
        for _p, n in model.walk(d):
            if n["c"] == "RecordArray" and n["length"] == 0 and _p:
                if any(m["c"] == "BitMaskedArray" for _q, m in model.walk(n)):
                    return True
    return False


@mechanism("F80-layoutbuilder-nested-forms")
def _f80(vio):
    """the Form-driven LayoutBuilder of 1.4.0 (an experimental class) on Forms that nest structural nodes beyond the
    shapes its own tests show: a second list level, regular/option/union/record nodes below lists or records, masked
    wrappers over non-leaf nodes"""
    case = vio.get("case") or {}
    if case.get("mode") != "layoutbuilder" or case.get("simple") is not False:
        return False
    return vio.get("kind", "").startswith("layoutbuilder-") or vio.get("kind") in ("process-death", "hang")


@mechanism("F82-lazy-reduce-through-records")
def _f82(vio):
    """reducers on option-type / indexed data whose content is a virtual RecordArray: the lazy carry leaves an
    IndexedArray64 in the way and IndexedArray::reduce_next refuses the RecordArray it gets back"""
    det = vio.get("detail") or {}
    if vio.get("kind") != "lazy-outcome-differs" or _op_of(vio).get("op") != "reduce":
        return False
    msg = ((det.get("lazy") or {}).get("msg") or "")
    return "reduce_next with unbranching depth > negaxis is only expected to return" in msg and \
        _has_class(vio, ("RecordArray",))


def _c04_types(vio):
    return [a.get("type") or "" for a in ((vio.get("detail") or {}).get("args") or [])]


@mechanism("F85-broadcast-size0-regular-dimension")
def _f85(vio):
    """broadcasting when an argument has a regular dimension of size 0 below the top level against a size-1 (or
    other) dimension: errors ('cannot broadcast RegularArray of size 0 ...', index out of range) or lost lengths"""
    import re
    if (vio.get("case") or {}).get("regime") is None or vio.get("kind") not in ("unexpected-error", "wrong-value"):
        return False
    return any(re.search(r"(?<![0-9])0\*", t) for t in _c04_types(vio))


@mechanism("F86-broadcast_arrays-scalar-regular")
def _f86(vio):
    """ak.broadcast_arrays with a Python scalar and an array that has a regular dimension: error or the scalar is not
    repeated across that dimension"""
    import re
    det = vio.get("detail") or {}
    if det.get("op") != "broadcast_arrays" or vio.get("kind") not in ("unexpected-error", "wrong-value"):
        return False
    args = det.get("args") or []
    return any("scalar" in a for a in args) and any(re.search(r"\d\*", a.get("type") or "") for a in args)


@mechanism("F88-broadcast-physical-encodings")
def _f88(vio):
    """broadcasting arguments of the same logical structure whose list/option nodes differ physically (ListArray vs
    ListOffsetArray, offsets not starting at zero, unreachable content, indexed indirection): the per-level contents
    disagree in length or the nested lists are refused"""
    import re
    case = vio.get("case") or {}
    det = vio.get("detail") or {}
    pstream = det.get("lane") == "P"          # (ak.zip / with_field / concatenate ... broadcast their arguments, too)
    if not (case.get("encodings") == "physical" or pstream) or vio.get("kind") != "unexpected-error":
        return False
    got = det.get("got") or ""
    return bool(re.search(r"cannot broadcast \w+ of length \d+ with \w+ of length \d+", got)) or \
        "cannot broadcast nested list" in got


@mechanism("F91-broadcast-union-impossible-combinations")
def _f91(vio):
    """broadcasting union-type arguments evaluates the function on every combination of arms, including combinations
    no element has, on empty selections whose shapes are incompatible"""
    det = vio.get("detail") or {}
    if (vio.get("case") or {}).get("regime") is None or vio.get("kind") != "unexpected-error":
        return False
    got = det.get("got") or ""
    return ("operands could not be broadcast together" in got or
            "cannot broadcast records because keys don't match" in got) and \
        any("U[" in t for t in _c04_types(vio))


@mechanism("F92-merge-float16")
def _f92(vio):
    """results that have to merge a float16 part (np.sqrt/arctan2/true_divide of booleans and int8 give float16)
    with other parts: 'FIXME: merge to/from float16 not implemented'"""
    det = vio.get("detail") or {}
    return vio.get("kind") == "unexpected-error" and "float16 not implemented" in (det.get("got") or "")


def _c16(vio):
    case = vio.get("case") or {}
    return case.get("fam") in ("buffers", "pickle", "numpy", "from_numpy", "arrow")


def _c16_err(vio):
    det = vio.get("detail") or {}
    return det.get("error") or ""


def _T_has_time(T):
    if not isinstance(T, dict):
        return False
    if T.get("t") == "prim":
        return T["d"].startswith("datetime") or T["d"].startswith("timedelta")
    return any(_T_has_time(x) for x in [T.get("e")] + list(T.get("fields", [])) + list(T.get("arms", [])))


@mechanism("F94-datetime-conversions")
def _f94(vio):
    """datetime64/timedelta64 leaves in to_buffers / pickle / to_numpy / from_numpy / to_arrow: the conversion code of
    1.4.0 predates the datetime support of the C++ layer ('cannot convert NumPy dtype with kind M into a NumpyForm',
    'int too big to convert', NumpyArray.dtype, datetime read back as float64)"""
    if not _c16(vio):
        return False
    case = vio.get("case") or {}
    dt = case.get("dtype") or ""
    return _T_has_time(case.get("T")) or dt.startswith("datetime") or dt.startswith("timedelta")


@mechanism("F93-from_buffers-sorts-record-fields")
def _f93(vio):
    """from_buffers (and so pickle) rebuilds records from RecordForm.contents, which the binding exposes as a
    std::map: the fields come back in alphabetical order"""
    from vlib import model
    if not _c16(vio) or not any(vio.get("kind", "").endswith(x) for x in ("-type-changed", "-value-changed",
                                                                         "-parameters-changed")):
        return False
    if (vio.get("case") or {}).get("fam") not in ("buffers", "pickle"):
        return False
    for d in _layouts(vio) + list((vio.get("case") or {}).get("parts", [])):
        for _p, n in model.walk(d):
            if n["c"] == "RecordArray" and n["keys"] is not None and list(n["keys"]) != sorted(n["keys"]):
                return True
    return False


@mechanism("F95-strided-leaf-buffers")
def _f95(vio):
    """conversions that hand a non-contiguous (strided / reversed) leaf buffer on as it is: to_arrow ('ndarray is not
    contiguous'), to_buffers -> from_buffers and from_numpy of strided string arrays ('the last axis must be
    contiguous', 'its size must be a divisor of the total size')"""
    if not _c16(vio):
        return False
    e = _c16_err(vio)
    return "not contiguous" in e or "must be contiguous" in e or "must be a divisor of the total size" in e or \
        "strides not supported" in e or "buffer size must be a multiple of element size" in e


def _c16_msg(vio, *frags):
    e = _c16_err(vio)
    return _c16(vio) and any(f in e for f in frags)


@mechanism("F97-from_buffers-drops-empty-partitions")
def _f97(vio):
    """from_buffers of a partitioned container: zero-length partitions are not restored"""
    det = vio.get("detail") or {}
    if vio.get("kind") != "buffers-partitioning-changed":
        return False
    before, after = det.get("before") or [], det.get("after") or []
    return [x for x in before if x != 0] == list(after or [])


@mechanism("F98-arrow-allow_tensor")
def _f98(vio):
    """to_arrow(allow_tensor=True) puts pyarrow.Tensor objects where Arrays are needed (below lists/records/options) and
    from_arrow does not read a Tensor back"""
    case = vio.get("case") or {}
    return case.get("fam") == "arrow" and (case.get("opts") or {}).get("allow_tensor") and "Tensor" in _c16_err(vio)


@mechanism("F99-packed-masked-over-option")
def _f99(vio):
    """ak.packed (used by pickling) calls toIndexedOptionArray64() on the result of simplify() of a Byte/BitMaskedArray,
    which is an IndexedOptionArray64 without that method when the masked content is itself option-type/indexed"""
    return _c16_msg(vio, "has no attribute 'toIndexedOptionArray64'")


@mechanism("F100-arrow-union-with-options")
def _f100(vio):
    """to_arrow / from_arrow of union-type arrays that involve missing values: invalid buffers ('Buffer #0 too small'),
    index errors while building the validity bitmap, unsupported casts of null unions, or missing values changed on the
    way back (the dense-union code of 1.4.0; validated more strictly by current pyarrow)"""
    from vlib import model
    case = vio.get("case") or {}
    if case.get("fam") != "arrow" or not isinstance(case.get("layout"), dict):
        return False
    return any(n["c"] == "UnionArray" for _p, n in model.walk(case["layout"]))


@mechanism("F101-to_buffers-masked-content-length")
def _f101(vio):
    """to_buffers/from_buffers of a ByteMaskedArray/BitMaskedArray whose content is longer or shorter than the lengths
    from_buffers recomputes from the Form ('content must not be shorter than its mask')"""
    return _c16_msg(vio, "content must not be shorter than its mask")


@mechanism("F102-size0-dimensions-in-conversions")
def _f102(vio):
    """zero-size regular dimensions in from_numpy / to_numpy / from_buffers: reshape errors and lost lengths"""
    import re
    if not _c16(vio):
        return False
    case = vio.get("case") or {}
    det = vio.get("detail") or {}
    shape = case.get("shape") or []
    if 0 in shape[1:]:
        return True
    if vio.get("kind") == "to_numpy-differs-from-value" and det.get("got") == "[]" and \
            set(det.get("expected") or "x") <= set("[], "):
        return True          # lists that are all empty become a dimension of size 0
    return bool(re.search(r"(?<![0-9])0\*", det.get("type") or ""))


@mechanism("F103-from_buffers-raw-bytes-multidimensional")
def _f103(vio):
    """from_buffers with raw bytes for a multidimensional NumpyArray node: 'cannot reshape array of size N into shape'"""
    case = vio.get("case") or {}
    return case.get("fam") == "buffers" and "cannot reshape array of size" in _c16_err(vio)


@mechanism("F104-arrow-categorical")
def _f104(vio):
    """categorical (dictionary-encoded) arrays through to_arrow/from_arrow: values come back rearranged"""
    from vlib import model
    case = vio.get("case") or {}
    if case.get("fam") != "arrow" or not isinstance(case.get("layout"), dict):
        return False
    return any(model.param(n, "__array__") == "categorical" for _p, n in model.walk(case["layout"]))


def _c20(vio):
    return "prog" in (vio.get("case") or {})


@mechanism("F108-numba-return-masked-slice")
def _f108(vio):
    """returning (boxing) a range slice of an array with ByteMaskedArray/BitMaskedArray nodes from compiled code:
    'ByteMaskedArray content must not be shorter than its mask'"""
    det = vio.get("detail") or {}
    comp = det.get("compiled") or {}
    e = str(comp.get("error") if isinstance(comp, dict) else comp)
    bit = "BitMaskedArray" in (det.get("classes") or [])
    return _c20(vio) and vio.get("kind") == "outcome-differs" and \
        ("content must not be shorter than its mask" in e or "mask must not be shorter than its ceil(length" in e or
         (bit and "Index::getitem_range_nowrap with illegal start:stop" in e))


@mechanism("F109-numba-size0-regular")
def _f109(vio):
    """arrays with a regular dimension of size 0 coming back from compiled code lose the number of lists"""
    import re
    det = vio.get("detail") or {}
    return _c20(vio) and vio.get("kind") == "value-differs" and bool(re.search(r"(?<![0-9])0\*", det.get("type") or ""))


def _same_ignoring_key_order(a, b):
    import json
    try:
        return json.dumps(a, sort_keys=True, default=str) == json.dumps(b, sort_keys=True, default=str)
    except Exception:
        return False


@mechanism("F110a-numba-virtual-multidimensional-form")
def _f110a(vio):
    det = vio.get("detail") or {}
    comp = det.get("compiled") or {}
    return _c20(vio) and (vio.get("case") or {}).get("wrap") == "virtual" and \
        "NumpyForm is multidimensional" in str(comp)


@mechanism("F110b-numba-virtual-strided-leaves")
def _f110b(vio):
    """a VirtualArray whose generated array has a strided / offset leaf buffer is read as if it were compact"""
    from vlib import model
    case = vio.get("case") or {}
    if not _c20(vio) or case.get("wrap") != "virtual" or vio.get("kind") != "value-differs":
        return False
    for _p, n in model.walk(case["layout"]):
        if n["c"] == "NumpyArray" and n["shape"] and (n["lo"] != 0 or list(n["strides"])[:1] != [n["itemsize"]]):
            return True
    return False


@mechanism("F110c-numba-virtual-record-field-order")
def _f110c(vio):
    """records coming out of a VirtualArray in compiled code have their fields in the (sorted) order of the Form"""
    from vlib import model
    case = vio.get("case") or {}
    if not _c20(vio) or case.get("wrap") != "virtual" or vio.get("kind") != "value-differs":
        return False
    for _p, n in model.walk(case["layout"]):
        if n["c"] == "RecordArray" and n["keys"] is not None and list(n["keys"]) != sorted(n["keys"]):
            return True
    return False


@mechanism("F111-numba-partitioned-element-access")
def _f111(vio):
    """x[i] (and what is chained after it) on a partitioned array inside compiled code: elements that are arrays come
    back through a view whose start/stop belong to another partition ('Index::getitem_range_nowrap with illegal
    start:stop', 'slice index out of bounds', 'at=N is out of range'), negative i addresses the wrong partition"""
    case = vio.get("case") or {}
    det = vio.get("detail") or {}
    return _c20(vio) and case.get("wrap") == "partitioned" and case.get("prog") in ("at", "chain") and \
        vio.get("kind") in ("outcome-differs", "value-differs", "process-death", "hang")
    # ("hang": the foreign start/stop depend on what the heap holds; in a long-lived process they can describe an
    # enormous range that the compiled loop then walks - the same case returns in 3 s in a fresh process)


@mechanism("F110d-numba-virtual-field-access")
def _f110d(vio):
    """x["field"] / x.field on a VirtualArray of records inside compiled code returns the records unchanged (or is
    refused by the typer)"""
    case = vio.get("case") or {}
    det = vio.get("detail") or {}
    return _c20(vio) and case.get("wrap") == "virtual" and det.get("program") == "field" and \
        vio.get("kind") in ("value-differs", "compiled-code-refused", "outcome-differs")


@mechanism("F113-from_arrow-bitmask-too-short")
def _f113(vio):
    """from_arrow builds a BitMaskedArray from an Arrow validity bitmap that is shorter than ceil(length / 8) bytes
    (sliced / offset struct children)"""
    return _c16_msg(vio, "BitMaskedArray mask must not be shorter than its ceil(length")


@mechanism("F114-rpad-clip-below-bitmasked")
def _f114(vio):
    """rpad_and_clip at an axis below a BitMaskedArray (reached through records with a negative axis) returns an
    invalid layout for some encodings"""
    det = vio.get("detail") or {}
    op = _op_of(vio)
    if vio.get("kind") != "value-differs" or op.get("op") != "rpad" or not op.get("clip"):
        return False
    unread = any("<unreadable" in str((det.get(k) or {}).get("value")) for k in ("A", "B", "C"))
    return unread and _has_class(vio, ("BitMaskedArray",))


@mechanism("F115-merge-strings-with-uint8-lists")
def _f115(vio):
    """mergemany of a list of strings with lists of uint8/bool numbers: the characters are merged as numbers or the
    merge is refused ('dtype not in {boolean, uint8}') depending on the encoding of the operands"""
    det = vio.get("detail") or {}
    if vio.get("kind") != "outcome-kind-differs" or _op_of(vio).get("op") != "mergemany":
        return False
    return any("dtype not in {boolean, uint8}" in str((det.get(k) or {}).get("msg")) for k in ("A", "B", "C"))


@mechanism("F117-with_field-scalar-replaces-only-field")
def _f117(vio):
    """ak.with_field(base, value, name) where `name` is the only field of the records: after removing it nothing is
    left to broadcast the value against - a scalar fails ('content argument must be a Content subtype'), an array
    becomes a field of one record per outermost entry instead of per innermost record"""
    det = vio.get("detail") or {}
    if det.get("lane") == "P" and (det.get("op") or {}).get("op") == "with_field_path":
        # nested records {id, a: {k, b: {x}}}: x is the only field of a.b
        return det.get("where") == ["a", "b", "x"] and vio.get("kind") in ("unexpected-error", "wrong-value")
    return det.get("lane") == "P" and (det.get("op") or {}).get("op") == "with_field" and \
        det.get("names") == [det.get("where")] and vio.get("kind") in ("unexpected-error", "wrong-value")


@mechanism("F118-type-parser-unsupported-constructs")
def _f118(vio):
    """ak.types.from_datashape (the type-string parser added in 1.4.0) does not read back everything Type::tostring
    prints: named tuples `Name[T, ...]`, the long form `option[...]` of an option type (AssertionError), empty records/tuples, datetime64 /
    timedelta64 / complex leaves, parameters holding floating-point numbers, escaped characters in strings"""
    import re
    det = vio.get("detail") or {}
    if det.get("lane") != "P" or not vio.get("kind", "").startswith(("type-string", "parsed-type")):
        return False
    if vio.get("kind") == "type-string-not-parsed":
        return True        # the grammar is incomplete: a refusal is this mechanism whatever construct triggers it
    t = det.get("type") or ""
    feats = [re.search(r"\b[A-Za-z_]\w*\[(?![\"\[])(?!type=)", re.sub(r"\b(option|union|categorical|struct|tuple)\[", "(", t)),
             "option[" in t, "{}" in t, "()" in t,
             re.search(r"datetime64|timedelta64|complex", t), re.search(r"\d[eE][-+]?\d|\d\.\d", t), "\\" in t]
    return any(bool(f) for f in feats)


@mechanism("F119-missing-then-advanced-invalid")
def _f119(vio):
    det = vio.get("detail") or {}
    op = det.get("op") or {}
    items = op.get("items") or []
    ts = [it.get("t") for it in items if isinstance(it, dict)]
    return vio.get("kind") == "invalid-result" and op.get("op") == "getitem" and "content" in ts and \
        "array" in ts[ts.index("content") + 1:] and "index[i] >= len(content)" in str(det.get("validityerror", ""))


@mechanism("F127-regular-getitem-at-after-missing")
def _f127(vio):
    """a missing-value index array, then other items, then an integer reaching a RegularArray: the library's own
    internal check fires ('RegularArray::getitem_next(SliceAt): !advanced.is_empty_advanced()') while the same data
    as ListArray/ListOffsetArray is sliced"""
    return vio.get("kind") in ("outcome-kind-differs", "unexpected-error") and \
        "RegularArray::getitem_next(SliceAt): !advanced.is_empty_advanced()" in str(vio.get("detail"))


@mechanism("F128-reduce-branching-records-below-indexed")
def _f128(vio):
    """reducers through records whose fields differ in depth, when an indexed/option node lies above the record (a
    lazy carry puts an IndexedArray64 there): refused ('reduce_next with branching depth ...'; before the F82 repair:
    '... only expected to return RegularArray or ListOffsetArray64') while the same data without that node reduces"""
    return vio.get("kind") in ("lazy-outcome-differs", "outcome-kind-differs") and \
        "reduce_next with branching depth" in str(vio.get("detail"))


@mechanism("F10-reduce-nonlocal")
def _f10(vio):
    rep = _report(vio)
    return vio.get("kind") == "process-death" and "awkward_ListOffsetArray_reduce_nonlocal_" in rep


_classify_predicates = classify


@mechanism("F130-partitioned-to-json-kwargs")
def _f130(vio):
    """ak.to_json of a partitioned array: convert.py passes nan_string=... to PartitionedArray.tojson, whose binding
    (src/python/partition.cpp) only takes pretty/maxdecimals -> TypeError for every partitioned input"""
    det = vio.get("detail") or {}
    return (vio.get("kind") == "partition-outcome-differs" and (det.get("op") or {}).get("op") == "tojson"
            and "tojson(): incompatible function arguments" in str(det.get("got")))


@mechanism("F133-option-node-over-virtual-not-simplified")
def _f133(vio):
    """ak.mask (or any option-making wrapper) applied to a VirtualArray whose materialisation is itself option-type
    wraps the virtual node without simplifying (the option below is invisible until generation): option-in-option,
    so a following fill_none / is_none treats only the outer missing values"""
    det = vio.get("detail") or {}
    step = det.get("step") or 0
    return (vio.get("kind") == "lazy-value-differs" and det.get("pop") == "virtual" and det.get("lane") == "P"
            and "?" in str(det.get("type")) and any(o.get("op") == "mask" for o in (det.get("ops") or [])[:step]))


def classify(vio):          # noqa: F811
    m = _classify_predicates(vio)
    if m:
        return m
    if vio.get("kind") in ("process-death", "hang"):
        cs = callsite(vio)
        if cs:
            return "crash@" + cs
    return None
