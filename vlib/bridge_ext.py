"""ctypes declarations for the later bridge sections (json, builders, forth, virtual, partitions, forms/types)."""
def declare(L):
    pass
