"""ctypes declarations and wrappers for the later bridge sections (json, forms/types, builders, forth, virtual, partitions)."""
import ctypes
from ctypes import c_void_p, c_char_p, c_int, c_int64, c_double, POINTER, byref

NG = b"\x01"     # "not given" marker for optional C strings


def declare(L):
    vp, cp, i, i64 = c_void_p, c_char_p, c_int, c_int64
    S = {
        "akb_tojson": (vp, [vp, i, i64, cp, cp, cp, cp, cp]),
        "akb_tojson_file": (i, [vp, cp, i, i64, i64, cp, cp, cp, cp, cp]),
        "akb_fromjson": (vp, [cp, i64, c_double, cp, cp, cp]),
        "akb_fromjson_file": (vp, [cp, i64, c_double, i64, cp, cp, cp]),
        "akb_form_free": (None, [vp]), "akb_form": (vp, [vp, i]), "akb_form_fromjson": (vp, [cp]),
        "akb_form_tojson": (vp, [vp, i, i]), "akb_form_tostring": (vp, [vp]),
        "akb_form_equal": (i, [vp, vp, i, i, i, i]),
        "akb_form_purelist_depth": (i64, [vp]), "akb_form_minmax_depth": (i, [vp, POINTER(i64), POINTER(i64)]),
        "akb_form_branch_depth": (i, [vp, POINTER(i64), POINTER(i64)]), "akb_form_purelist_isregular": (i, [vp]),
        "akb_form_numfields": (i64, [vp]), "akb_form_haskey": (i, [vp, cp]), "akb_form_keys": (vp, [vp]),
        "akb_type_free": (None, [vp]), "akb_type": (vp, [vp]), "akb_form_type": (vp, [vp]),
        "akb_type_tostring": (vp, [vp]), "akb_type_equal": (i, [vp, vp, i]), "akb_typestr": (vp, [vp]),
    }
    for name, (res, args) in S.items():
        try:
            f = getattr(L, name)
        except AttributeError:
            continue
        f.restype = res
        f.argtypes = args


def _o(s):
    if s is None:
        return NG
    return s.encode("utf-8") if isinstance(s, str) else s


class IoMixin(object):
    # ---- json
    def tojson(self, h, pretty=False, maxdecimals=-1, nan=None, inf=None, minf=None, creal=None, cimag=None):
        return self._s(self.L.akb_tojson(h.p, int(pretty), maxdecimals, _o(nan), _o(inf), _o(minf), _o(creal), _o(cimag)))

    def tojson_file(self, h, path, pretty=False, maxdecimals=-1, buffersize=65536, nan=None, inf=None, minf=None,
                    creal=None, cimag=None):
        rc = self.L.akb_tojson_file(h.p, path.encode(), int(pretty), maxdecimals, buffersize, _o(nan), _o(inf),
                                    _o(minf), _o(creal), _o(cimag))
        if rc != 0:
            self._raise()

    def fromjson(self, text, initial=1024, resize=1.5, nan=None, inf=None, minf=None):
        if isinstance(text, str):
            text = text.encode("utf-8", "surrogateescape")
        return self._c(self.L.akb_fromjson(text, initial, resize, _o(nan), _o(inf), _o(minf)))

    def fromjson_file(self, path, initial=1024, resize=1.5, buffersize=65536, nan=None, inf=None, minf=None):
        return self._c(self.L.akb_fromjson_file(path.encode(), initial, resize, buffersize, _o(nan), _o(inf), _o(minf)))

    # ---- forms / types
    def _f(self, p):
        from vlib.bridge import Handle
        if not p:
            self._raise()
        return Handle(self, p, self.L.akb_form_free)

    def _t(self, p):
        from vlib.bridge import Handle
        if not p:
            self._raise()
        return Handle(self, p, self.L.akb_type_free)

    def form(self, h, materialize=False):
        return self._f(self.L.akb_form(h.p, int(materialize)))

    def form_fromjson(self, text):
        return self._f(self.L.akb_form_fromjson(text.encode("utf-8")))

    def form_tojson(self, f, pretty=False, verbose=False):
        return self._s(self.L.akb_form_tojson(f.p, int(pretty), int(verbose)))

    def form_equal(self, a, b, ids=True, params=True, formkey=True, compat=False):
        return bool(self._n(self.L.akb_form_equal(a.p, b.p, int(ids), int(params), int(formkey), int(compat))))

    def form_purelist_depth(self, f):
        return self._n(self.L.akb_form_purelist_depth(f.p), -999)

    def form_minmax_depth(self, f):
        a, b = c_int64(), c_int64()
        self._n(self.L.akb_form_minmax_depth(f.p, byref(a), byref(b)))
        return (a.value, b.value)

    def form_branch_depth(self, f):
        a, b = c_int64(), c_int64()
        self._n(self.L.akb_form_branch_depth(f.p, byref(a), byref(b)))
        return (bool(a.value), b.value)

    def form_purelist_isregular(self, f):
        return bool(self._n(self.L.akb_form_purelist_isregular(f.p)))

    def form_numfields(self, f):
        return self._n(self.L.akb_form_numfields(f.p), -999)

    def form_haskey(self, f, key):
        return bool(self._n(self.L.akb_form_haskey(f.p, key.encode())))

    def form_keys(self, f):
        s = self._s(self.L.akb_form_keys(f.p))
        return s.split("\x1f") if s else []

    def type(self, h):
        return self._t(self.L.akb_type(h.p))

    def form_type(self, f):
        return self._t(self.L.akb_form_type(f.p))

    def type_tostring(self, t):
        return self._s(self.L.akb_type_tostring(t.p))

    def type_equal(self, a, b, check_parameters=True):
        return bool(self._n(self.L.akb_type_equal(a.p, b.p, int(check_parameters))))

    def typestr(self, h):
        return self._s(self.L.akb_typestr(h.p))
