"""ctypes declarations and wrappers for the later bridge sections (json, forms/types, builders, forth, virtual, partitions)."""
import ctypes
from ctypes import c_void_p, c_char_p, c_int, c_int64, c_double, POINTER, byref

NG = b"\x01"     # "not given" marker for optional C strings


def declare(L):
    vp, cp, i, i64 = c_void_p, c_char_p, c_int, c_int64
    S = {
        "akb_tojson": (vp, [vp, i, i64, cp, cp, cp, cp, cp]),
        "akb_tojson_file": (i, [vp, cp, i, i64, i64, cp, cp, cp, cp, cp]),
        "akb_fromjson": (vp, [cp, i64, c_double, cp, cp, cp]),
        "akb_fromjson_file": (vp, [cp, i64, c_double, i64, cp, cp, cp]),
        "akb_form_free": (None, [vp]), "akb_form": (vp, [vp, i]), "akb_form_fromjson": (vp, [cp]),
        "akb_form_tojson": (vp, [vp, i, i]), "akb_form_tostring": (vp, [vp]),
        "akb_form_equal": (i, [vp, vp, i, i, i, i]),
        "akb_form_purelist_depth": (i64, [vp]), "akb_form_minmax_depth": (i, [vp, POINTER(i64), POINTER(i64)]),
        "akb_form_branch_depth": (i, [vp, POINTER(i64), POINTER(i64)]), "akb_form_purelist_isregular": (i, [vp]),
        "akb_form_numfields": (i64, [vp]), "akb_form_haskey": (i, [vp, cp]), "akb_form_keys": (vp, [vp]),
        "akb_type_free": (None, [vp]), "akb_type": (vp, [vp]), "akb_form_type": (vp, [vp]),
        "akb_type_tostring": (vp, [vp]), "akb_type_equal": (i, [vp, vp, i]), "akb_typestr": (vp, [vp]),
    }
    S.update({
        "akb_builder_new": (vp, [i64, c_double]), "akb_builder_free": (None, [vp]), "akb_builder_raw": (vp, [vp]),
        "akb_builder_length": (i64, [vp]), "akb_builder_clear": (i, [vp]), "akb_builder_null": (i, [vp]),
        "akb_builder_boolean": (i, [vp, i]), "akb_builder_integer": (i, [vp, i64]), "akb_builder_real": (i, [vp, c_double]),
        "akb_builder_complex": (i, [vp, c_double, c_double]), "akb_builder_datetime": (i, [vp, i64, cp]),
        "akb_builder_timedelta": (i, [vp, i64, cp]), "akb_builder_string": (i, [vp, cp, i64]),
        "akb_builder_bytestring": (i, [vp, cp, i64]), "akb_builder_beginlist": (i, [vp]), "akb_builder_endlist": (i, [vp]),
        "akb_builder_begintuple": (i, [vp, i64]), "akb_builder_index": (i, [vp, i64]), "akb_builder_endtuple": (i, [vp]),
        "akb_builder_beginrecord": (i, [vp, cp]), "akb_builder_field": (i, [vp, cp]), "akb_builder_endrecord": (i, [vp]),
        "akb_builder_append": (i, [vp, vp, i64]), "akb_builder_extend": (i, [vp, vp]),
        "akb_builder_snapshot": (vp, [vp]), "akb_builder_typestr": (vp, [vp]),
    })
    for name, (res, args) in S.items():
        try:
            f = getattr(L, name)
        except AttributeError:
            continue
        f.restype = res
        f.argtypes = args


def _o(s):
    if s is None:
        return NG
    return s.encode("utf-8") if isinstance(s, str) else s


class IoMixin(object):
    # ---- json
    def tojson(self, h, pretty=False, maxdecimals=-1, nan=None, inf=None, minf=None, creal=None, cimag=None):
        return self._s(self.L.akb_tojson(h.p, int(pretty), maxdecimals, _o(nan), _o(inf), _o(minf), _o(creal), _o(cimag)))

    def tojson_file(self, h, path, pretty=False, maxdecimals=-1, buffersize=65536, nan=None, inf=None, minf=None,
                    creal=None, cimag=None):
        rc = self.L.akb_tojson_file(h.p, path.encode(), int(pretty), maxdecimals, buffersize, _o(nan), _o(inf),
                                    _o(minf), _o(creal), _o(cimag))
        if rc != 0:
            self._raise()

    def fromjson(self, text, initial=1024, resize=1.5, nan=None, inf=None, minf=None):
        if isinstance(text, str):
            text = text.encode("utf-8", "surrogateescape")
        return self._c(self.L.akb_fromjson(text, initial, resize, _o(nan), _o(inf), _o(minf)))

    def fromjson_file(self, path, initial=1024, resize=1.5, buffersize=65536, nan=None, inf=None, minf=None):
        return self._c(self.L.akb_fromjson_file(path.encode(), initial, resize, buffersize, _o(nan), _o(inf), _o(minf)))

    # ---- forms / types
    def _f(self, p):
        from vlib.bridge import Handle
        if not p:
            self._raise()
        return Handle(self, p, self.L.akb_form_free)

    def _t(self, p):
        from vlib.bridge import Handle
        if not p:
            self._raise()
        return Handle(self, p, self.L.akb_type_free)

    def form(self, h, materialize=False):
        return self._f(self.L.akb_form(h.p, int(materialize)))

    def form_fromjson(self, text):
        return self._f(self.L.akb_form_fromjson(text.encode("utf-8")))

    def form_tojson(self, f, pretty=False, verbose=False):
        return self._s(self.L.akb_form_tojson(f.p, int(pretty), int(verbose)))

    def form_equal(self, a, b, ids=True, params=True, formkey=True, compat=False):
        return bool(self._n(self.L.akb_form_equal(a.p, b.p, int(ids), int(params), int(formkey), int(compat))))

    def form_purelist_depth(self, f):
        return self._n(self.L.akb_form_purelist_depth(f.p), -999)

    def form_minmax_depth(self, f):
        a, b = c_int64(), c_int64()
        self._n(self.L.akb_form_minmax_depth(f.p, byref(a), byref(b)))
        return (a.value, b.value)

    def form_branch_depth(self, f):
        a, b = c_int64(), c_int64()
        self._n(self.L.akb_form_branch_depth(f.p, byref(a), byref(b)))
        return (bool(a.value), b.value)

    def form_purelist_isregular(self, f):
        return bool(self._n(self.L.akb_form_purelist_isregular(f.p)))

    def form_numfields(self, f):
        return self._n(self.L.akb_form_numfields(f.p), -999)

    def form_haskey(self, f, key):
        return bool(self._n(self.L.akb_form_haskey(f.p, key.encode())))

    def form_keys(self, f):
        s = self._s(self.L.akb_form_keys(f.p))
        return s.split("\x1f") if s else []

    def type(self, h):
        return self._t(self.L.akb_type(h.p))

    def form_type(self, f):
        return self._t(self.L.akb_form_type(f.p))

    def type_tostring(self, t):
        return self._s(self.L.akb_type_tostring(t.p))

    def type_equal(self, a, b, check_parameters=True):
        return bool(self._n(self.L.akb_type_equal(a.p, b.p, int(check_parameters))))

    def typestr(self, h):
        return self._s(self.L.akb_typestr(h.p))


class Builder(object):
    """ArrayBuilder driven through the bridge; every command raises AkError when the library raises"""

    def __init__(self, b, initial=1024, resize=1.5):
        from vlib.bridge import Handle
        self.b = b
        p = b.L.akb_builder_new(initial, resize)
        if not p:
            b._raise()
        self.h = Handle(b, p, b.L.akb_builder_free)

    def _rc(self, rc):
        if rc != 0:
            self.b._raise()

    def cmd(self, c):
        """c = [name, args...] (JSON-able)"""
        L, p, n = self.b.L, self.h.p, c[0]
        if n == "null":
            self._rc(L.akb_builder_null(p))
        elif n == "boolean":
            self._rc(L.akb_builder_boolean(p, int(c[1])))
        elif n == "integer":
            self._rc(L.akb_builder_integer(p, c[1]))
        elif n == "real":
            self._rc(L.akb_builder_real(p, c[1]))
        elif n == "complex":
            self._rc(L.akb_builder_complex(p, c[1], c[2]))
        elif n == "datetime":
            self._rc(L.akb_builder_datetime(p, c[1], c[2].encode()))
        elif n == "timedelta":
            self._rc(L.akb_builder_timedelta(p, c[1], c[2].encode()))
        elif n == "string":
            raw = c[1].encode("utf-8", "surrogateescape")
            self._rc(L.akb_builder_string(p, raw, len(raw)))
        elif n == "bytestring":
            raw = bytes.fromhex(c[1])
            self._rc(L.akb_builder_bytestring(p, raw, len(raw)))
        elif n == "beginlist":
            self._rc(L.akb_builder_beginlist(p))
        elif n == "endlist":
            self._rc(L.akb_builder_endlist(p))
        elif n == "begintuple":
            self._rc(L.akb_builder_begintuple(p, c[1]))
        elif n == "index":
            self._rc(L.akb_builder_index(p, c[1]))
        elif n == "endtuple":
            self._rc(L.akb_builder_endtuple(p))
        elif n == "beginrecord":
            self._rc(L.akb_builder_beginrecord(p, None if c[1] is None else c[1].encode()))
        elif n == "field":
            self._rc(L.akb_builder_field(p, c[1].encode("utf-8", "surrogateescape")))
        elif n == "endrecord":
            self._rc(L.akb_builder_endrecord(p))
        elif n == "clear":
            self._rc(L.akb_builder_clear(p))
        else:
            raise ValueError(n)

    def append(self, content, at):
        self._rc(self.b.L.akb_builder_append(self.h.p, content.p, at))

    def extend(self, content):
        self._rc(self.b.L.akb_builder_extend(self.h.p, content.p))

    def snapshot(self):
        return self.b._c(self.b.L.akb_builder_snapshot(self.h.p))

    def length(self):
        return self.b._n(self.b.L.akb_builder_length(self.h.p))

    def typestr(self):
        return self.b._s(self.b.L.akb_builder_typestr(self.h.p))

    def fromiter(self, obj):
        """walk a Python object exactly as builder_fromiter (src/python/content.cpp) does"""
        if obj is None:
            self.cmd(["null"])
        elif isinstance(obj, bool):
            self.cmd(["boolean", obj])
        elif isinstance(obj, int):
            self.cmd(["integer", obj])
        elif isinstance(obj, float):
            self.cmd(["real", obj])
        elif isinstance(obj, complex):
            self.cmd(["complex", obj.real, obj.imag])
        elif isinstance(obj, bytes):
            self.cmd(["bytestring", obj.hex()])
        elif isinstance(obj, str):
            self.cmd(["string", obj])
        elif isinstance(obj, tuple):
            self.cmd(["begintuple", len(obj)])
            for i, x in enumerate(obj):
                self.cmd(["index", i])
                self.fromiter(x)
            self.cmd(["endtuple"])
        elif isinstance(obj, dict):
            self.cmd(["beginrecord", None])
            for k, x in obj.items():
                self.cmd(["field", k])
                self.fromiter(x)
            self.cmd(["endrecord"])
        elif isinstance(obj, list):
            self.cmd(["beginlist"])
            for x in obj:
                self.fromiter(x)
            self.cmd(["endlist"])
        else:
            raise TypeError(type(obj))
