"""Executable form of kernel-specification.yml (property C13, lane K).

The repository documents every CPU kernel with a Python `definition` inside
kernel-specification.yml; `dev/generate-tests.py` executes those definitions
with plain Python lists for inputs and `{}` for outputs.  This module executes
the same text, following the same conventions (the function is called with
keyword arguments named as in the YAML, outputs are index -> value maps,
`ValueError` is the error status), but on *typed, index-recording* lists:

  RecIn   read-only; any index outside [0, len) raises SpecOutOfBounds (a plain
          Python list would silently wrap a negative index);
  RecOut  dict-backed; records which indexes were written, casts every stored
          value to the argument's C type, refuses to read an index that was
          never written (uninitialised memory in C) unless the argument is
          declared in/out and initial values were supplied.

Mechanical repairs applied to the YAML text (all listed in REPAIRS and copied
into the evidence):

  * `awkward_regularize_rangeslice(a, b, ...)` relies on C++ pass-by-pointer;
    the expression statement is rewritten to `a, b = awkward_regularize_rangeslice(a, b, ...)`
    and the helper is a transliteration of src/cpu-kernels/kernel-utils.cpp;
  * `/` and `//` are C integer division (truncation) when both operands are
    integers;
  * `float(x)` only marks "a value" (identity), `int(x)` is the C cast,
    `uint8(x)` is `x & 0xFF`;
  * `kSliceNone`, `kMaxInt64`, ... are read from include/awkward/common.h;
  * every loop body is charged against an iteration budget so that a candidate
    tuple on which the definition does not terminate is rejected, not run.
"""
from __future__ import print_function

import ast
import ctypes
import math
import os
import re

import yaml

HERE = os.path.dirname(os.path.dirname(os.path.abspath(__file__)))
import sys  # noqa: E402
if HERE not in sys.path:
    sys.path.insert(0, HERE)
import vbuild  # noqa: E402

try:
    import numpy as _np
except ImportError:  # pragma: no cover
    _np = None


# --------------------------------------------------------------------- types

class TypeInfo(object):
    __slots__ = ("name", "kind", "bits", "ctype", "size", "lo", "hi", "fmt")

    def __init__(self, name, kind, bits, ctype, fmt):
        self.name, self.kind, self.bits, self.ctype, self.fmt = name, kind, bits, ctype, fmt
        self.size = ctypes.sizeof(ctype)
        if kind == "int":
            self.lo, self.hi = -(1 << (bits - 1)), (1 << (bits - 1)) - 1
        elif kind == "uint":
            self.lo, self.hi = 0, (1 << bits) - 1
        elif kind == "bool":
            self.lo, self.hi = 0, 1
        else:
            self.lo, self.hi = None, None

    def __repr__(self):
        return "<%s>" % self.name


TYPES = {}
for _n, _k, _b, _c, _f in [
    ("bool", "bool", 8, ctypes.c_uint8, "B"),
    ("int8_t", "int", 8, ctypes.c_int8, "b"),
    ("uint8_t", "uint", 8, ctypes.c_uint8, "B"),
    ("int16_t", "int", 16, ctypes.c_int16, "h"),
    ("uint16_t", "uint", 16, ctypes.c_uint16, "H"),
    ("int32_t", "int", 32, ctypes.c_int32, "i"),
    ("uint32_t", "uint", 32, ctypes.c_uint32, "I"),
    ("int64_t", "int", 64, ctypes.c_int64, "q"),
    ("uint64_t", "uint", 64, ctypes.c_uint64, "Q"),
    ("float", "float", 32, ctypes.c_float, "f"),
    ("double", "float", 64, ctypes.c_double, "d"),
]:
    TYPES[_n] = TypeInfo(_n, _k, _b, _c, _f)

SCALAR_CTYPE = dict((n, t.ctype) for n, t in TYPES.items())
SCALAR_CTYPE["bool"] = ctypes.c_bool


class SpecReject(Exception):
    """The candidate tuple is outside what the definition covers."""
    reason = "rejected"


class SpecOutOfBounds(SpecReject):
    reason = "index-out-of-bounds"


class SpecUninitRead(SpecReject):
    reason = "reads-unwritten-output"


class SpecBudget(SpecReject):
    reason = "iteration-budget"


class SpecUndefinedCast(SpecReject):
    reason = "c-undefined-cast"


class SpecHugeExtent(SpecReject):
    reason = "huge-extent"


MAX_EXTENT = 1 << 16


def _f32(x):
    with _np.errstate(all="ignore"):
        if isinstance(x, int) and not isinstance(x, bool):
            if -(1 << 63) <= x < (1 << 63):
                return float(_np.int64(x).astype(_np.float32))
            if 0 <= x < (1 << 64):
                return float(_np.uint64(x).astype(_np.float32))
            return float(_np.float32(float(x)))
        return float(_np.float32(x))


def cast(t, v):
    """The value C stores when `v` is assigned to an lvalue of type t."""
    k = t.kind
    if k == "int" or k == "uint":
        if isinstance(v, float):
            if v != v or v in (float("inf"), float("-inf")):
                raise SpecUndefinedCast("float %r -> %s" % (v, t.name))
            v = int(v)       # truncation toward zero, as the C cast
            if not (t.lo <= v <= t.hi):
                raise SpecUndefinedCast("float out of range -> %s" % t.name)
            return v
        v = int(v)
        if t.lo <= v <= t.hi:
            return v
        v &= (1 << t.bits) - 1
        if k == "int" and v >> (t.bits - 1):
            v -= 1 << t.bits
        return v
    if k == "bool":
        return bool(v)
    if t.bits == 32:
        return _f32(v)
    if isinstance(v, int) and not isinstance(v, bool):
        try:
            return float(v)
        except OverflowError:
            return float("inf") if v > 0 else float("-inf")
    return float(v)


def representable(t, v):
    """Is the logical value v exactly an element of type t?"""
    if isinstance(v, (list, tuple)):
        return all(representable(t, x) for x in v)
    k = t.kind
    if k == "bool":
        return v in (0, 1, True, False)
    if k in ("int", "uint"):
        if isinstance(v, bool):
            return True
        if isinstance(v, float):
            return v == v and abs(v) != float("inf") and v == int(v) and t.lo <= int(v) <= t.hi
        return t.lo <= v <= t.hi
    if isinstance(v, bool):
        return True
    if t.bits == 64:
        if isinstance(v, int):
            try:
                return int(float(v)) == v
            except OverflowError:
                return False
        return True
    if isinstance(v, float) and (v != v or abs(v) == float("inf")):
        return True
    try:
        r = _f32(v)
    except OverflowError:
        return False
    return r == v


# ---------------------------------------------------------- recording lists

class RecIn(object):
    __slots__ = ("name", "data", "n", "maxread", "nreads")

    def __init__(self, name, data):
        self.name = name
        self.data = data
        self.n = len(data)
        self.maxread = -1
        self.nreads = 0

    def __getitem__(self, i):
        if type(i) is not int:
            if isinstance(i, bool):
                i = int(i)
            elif isinstance(i, int):
                i = int(i)
            else:
                raise TypeError("index %r into %s" % (i, self.name))
        if i < 0 or i >= self.n:
            raise SpecOutOfBounds("%s[%d] with len %d" % (self.name, i, self.n))
        if i > self.maxread:
            self.maxread = i
        self.nreads += 1
        return self.data[i]

    def __setitem__(self, i, v):
        raise SpecOutOfBounds("write to input %s[%r]" % (self.name, i))

    def __len__(self):
        return self.n


class RecOut(object):
    __slots__ = ("name", "t", "w", "init", "maxidx", "maxread")

    def __init__(self, name, t, init=None):
        self.name = name
        self.t = t
        self.w = {}
        self.init = init       # list of initial values for in/out arguments
        self.maxidx = -1
        self.maxread = -1

    def _idx(self, i):
        if type(i) is not int:
            if isinstance(i, int):
                i = int(i)
            else:
                raise TypeError("index %r into %s" % (i, self.name))
        if i < 0:
            raise SpecOutOfBounds("%s[%d]" % (self.name, i))
        if i >= MAX_EXTENT:
            raise SpecHugeExtent("%s[%d]" % (self.name, i))
        return i

    def __setitem__(self, i, v):
        i = self._idx(i)
        self.w[i] = cast(self.t, v)
        if i > self.maxidx:
            self.maxidx = i

    def __getitem__(self, i):
        i = self._idx(i)
        if i in self.w:
            return self.w[i]
        if self.init is not None and i < len(self.init):
            if i > self.maxread:
                self.maxread = i
            return self.init[i]
        raise SpecUninitRead("%s[%d] read before written" % (self.name, i))

    def extent(self):
        n = self.maxidx + 1
        if self.init is not None:
            n = max(n, len(self.init))
        return n


def _mk_uint(bits):
    mask = (1 << bits) - 1

    class U(int):
        """A value read from an unsigned C array: op with another value of the same type wraps like C."""
        __slots__ = ()

        def __sub__(self, o):
            if type(o) is type(self):
                return type(self)((int(self) - int(o)) & mask)
            return int.__sub__(self, o)

        def __add__(self, o):
            if type(o) is type(self):
                return type(self)((int(self) + int(o)) & mask)
            return int.__add__(self, o)

        def __mul__(self, o):
            if type(o) is type(self):
                return type(self)((int(self) * int(o)) & mask)
            return int.__mul__(self, o)
    U.__name__ = "U%d" % bits
    return U


_UINT = dict((b, _mk_uint(b)) for b in (8, 16, 32, 64))


class Err(object):
    """What a nested kernel call returns inside a definition (`err.str`)."""
    str = None


# ------------------------------------------------------------ helper globals

def _read_constants(repo):
    out = {}
    try:
        text = open(os.path.join(repo, "include", "awkward", "common.h")).read()
    except IOError:
        text = ""
    env = {}
    for m in re.finditer(r"const\s+\w+\s+(k\w+)\s*=\s*([^;]+);", text):
        try:
            env[m.group(1)] = int(eval(m.group(2), {"__builtins__": {}}, dict(env)))
        except Exception:
            pass
    out.update(env)
    out.setdefault("kMaxInt64", 9223372036854775806)
    out.setdefault("kSliceNone", out["kMaxInt64"] + 1)
    return out


def _regularize_rangeslice(start, stop, posstep, hasstart, hasstop, length):
    # transliteration of src/cpu-kernels/kernel-utils.cpp: awkward_regularize_rangeslice
    if posstep:
        if not hasstart:
            start = 0
        elif start < 0:
            start += length
        if start < 0:
            start = 0
        if start > length:
            start = length
        if not hasstop:
            stop = length
        elif stop < 0:
            stop += length
        if stop < 0:
            stop = 0
        if stop > length:
            stop = length
        if stop < start:
            stop = start
    else:
        if not hasstart:
            start = length - 1
        elif start < 0:
            start += length
        if start < -1:
            start = -1
        if start > length - 1:
            start = length - 1
        if not hasstop:
            stop = -1
        elif stop < 0:
            stop += length
        if stop < -1:
            stop = -1
        if stop > length - 1:
            stop = length - 1
        if stop > start:
            stop = start
    return start, stop


def _isint(x):
    return isinstance(x, int)


def _cdiv(a, b):
    if _isint(a) and _isint(b):
        if b == 0:
            raise ZeroDivisionError("integer division by zero")
        q = abs(a) // abs(b)
        return q if (a >= 0) == (b >= 0) else -q
    return a / b


def _value(x):
    return x


def _cint(x):
    if isinstance(x, float):
        if x != x or abs(x) == float("inf"):
            raise SpecUndefinedCast("int(%r)" % x)
        return int(x)
    return int(x)


def _uint8(x):
    return int(x) & 0xFF


class _Budget(object):
    __slots__ = ("left",)

    def __init__(self, n):
        self.left = n

    def __call__(self):
        self.left -= 1
        if self.left < 0:
            raise SpecBudget("iteration budget exhausted")


REPAIRS = [
    "awkward_regularize_rangeslice(a, b, ...) statement -> a, b = helper(a, b, ...) (C++ pass-by-pointer); helper transliterated from kernel-utils.cpp",
    "'/' and '//' on two integers -> C truncating division",
    "float(x) -> x (marks a value, not an IEEE conversion); int(x) -> C cast; uint8(x) -> x & 0xFF",
    "kSliceNone / kMaxInt64 / ... bound to the constants of include/awkward/common.h; nullptr -> None",
    "loop bodies charged against an iteration budget (non-terminating candidate -> rejected)",
    "stores into outputs are cast to the C element type (two's-complement wrap, float32 rounding, bool)",
    "`out = expr` where `out` is an output pointer parameter -> `out[0] = expr` (the C++ says `*out = expr`)",
]


class _Rewrite(ast.NodeTransformer):
    BYREF = {"awkward_regularize_rangeslice": 2}

    def __init__(self, outlists=()):
        self.outlists = set(outlists)

    def visit_Assign(self, node):
        self.generic_visit(node)
        # `tolength = k` where tolength is an output pointer: the C++ says `*tolength = k`
        if len(node.targets) == 1 and isinstance(node.targets[0], ast.Name) and node.targets[0].id in self.outlists:
            tgt = ast.Subscript(value=ast.Name(id=node.targets[0].id, ctx=ast.Load()),
                                slice=ast.Constant(value=0), ctx=ast.Store())
            return ast.copy_location(ast.Assign(targets=[tgt], value=node.value), node)
        return node

    def visit_Expr(self, node):
        self.generic_visit(node)
        c = node.value
        if isinstance(c, ast.Call) and isinstance(c.func, ast.Name) and c.func.id in self.BYREF:
            n = self.BYREF[c.func.id]
            if all(isinstance(a, ast.Name) for a in c.args[:n]):
                tgt = ast.Tuple(elts=[ast.Name(id=a.id, ctx=ast.Store()) for a in c.args[:n]], ctx=ast.Store())
                return ast.copy_location(ast.Assign(targets=[tgt], value=c), node)
        return node

    def visit_BinOp(self, node):
        self.generic_visit(node)
        if isinstance(node.op, (ast.Div, ast.FloorDiv)):
            return ast.copy_location(ast.Call(func=ast.Name(id="__cdiv", ctx=ast.Load()),
                                              args=[node.left, node.right], keywords=[]), node)
        return node

    def visit_AugAssign(self, node):
        self.generic_visit(node)
        if isinstance(node.op, (ast.Div, ast.FloorDiv)):
            import copy
            load = copy.deepcopy(node.target)
            for n in ast.walk(load):
                if hasattr(n, "ctx"):
                    n.ctx = ast.Load()
            val = ast.Call(func=ast.Name(id="__cdiv", ctx=ast.Load()), args=[load, node.value], keywords=[])
            return ast.copy_location(ast.Assign(targets=[node.target], value=val), node)
        return node

    def _tick(self, node):
        self.generic_visit(node)
        tick = ast.Expr(value=ast.Call(func=ast.Name(id="__tick", ctx=ast.Load()), args=[], keywords=[]))
        node.body = [tick] + node.body
        return node

    visit_For = _tick
    visit_While = _tick


def compile_definition(source, name, consts, extra_globals=None, outlists=()):
    tree = ast.parse(source)
    tree = _Rewrite(outlists).visit(tree)
    ast.fix_missing_locations(tree)
    g = {
        "__builtins__": {"range": range, "ValueError": ValueError, "len": len, "abs": abs, "min": min,
                         "max": max, "bool": bool, "True": True, "False": False, "None": None,
                         "IndexError": IndexError, "sorted": sorted, "list": list, "enumerate": enumerate,
                         "zip": zip, "isinstance": isinstance, "tuple": tuple, "set": set, "sum": sum,
                         "any": any, "all": all, "reversed": reversed, "int": int, "float": float},
        "__cdiv": _cdiv,
        "__tick": lambda: None,
        "float": _value,
        "int": _cint,
        "uint8": _uint8,
        "nullptr": None,
        "awkward_regularize_rangeslice": _regularize_rangeslice,
        "math": math,
    }
    g.update(consts)
    if extra_globals:
        g.update(extra_globals)
    exec(compile(tree, "<definition of %s>" % name, "exec"), g)
    return g


# --------------------------------------------------------------- YAML model

class Arg(object):
    __slots__ = ("name", "typename", "t", "depth", "dir", "role", "const", "inout")

    def __init__(self, d):
        self.inout = False
        self.name = d["name"]
        self.typename = d["type"]
        self.dir = d["dir"]
        self.role = d.get("role", "default")
        tn = d["type"]
        self.const = tn.startswith("Const[")
        self.depth = tn.count("List[")
        base = tn.replace("Const[", "").replace("List[", "").replace("]", "")
        self.t = TYPES[base]

    @property
    def is_list(self):
        return self.depth > 0

    @property
    def is_out(self):
        return self.dir == "out"


class Specialization(object):
    def __init__(self, kernel, d):
        self.kernel = kernel
        self.name = d["name"]
        self.args = [Arg(a) for a in d["args"]]
        self.byname = dict((a.name, a) for a in self.args)

    def __repr__(self):
        return "<spec %s>" % self.name


class Kernel(object):
    def __init__(self, d, spec):
        self.spec = spec
        self.name = d["name"]
        self.source = d["definition"]
        self.automatic_tests = bool(d.get("automatic-tests"))
        self.specializations = [Specialization(self, s) for s in d["specializations"]]
        self.yaml_has_definition = "def " in self.source
        self.origin = "yaml" if self.yaml_has_definition else "none"
        self.override_reason = None
        self._globals = None
        self.compile_error = None

    @property
    def has_definition(self):
        return self.origin != "none"

    def function(self):
        if self._globals is None:
            try:
                outl = [a.name for a in self.specializations[0].args if a.is_out and a.is_list]
                extra = dict(getattr(self.spec, "extra_globals", {})) if self.origin != "yaml" else None
                self._globals = compile_definition(self.source, self.name, self.spec.consts, extra, outlists=outl)
            except Exception as e:   # a definition that does not even compile
                self.compile_error = "%s: %s" % (type(e).__name__, e)
                self._globals = {}
        return self._globals.get(self.name), self._globals


class Spec(object):
    def __init__(self, repo):
        self.repo = repo
        self.consts = _read_constants(repo)
        with open(os.path.join(repo, "kernel-specification.yml")) as f:
            doc = yaml.load(f, Loader=getattr(yaml, "CSafeLoader", yaml.SafeLoader))
        self.kernels = [Kernel(k, self) for k in doc["kernels"]]
        self.bykernel = dict((k.name, k) for k in self.kernels)
        self.specializations = [s for k in self.kernels for s in k.specializations]
        self.byspec = dict((s.name, s) for s in self.specializations)
        self.tests = doc.get("tests", {})
        self.extra_globals = {}
        self._apply_overrides()

    def _apply_overrides(self):
        try:
            from vlib import kernel_overrides as ko
        except ImportError:
            return
        for name, d in getattr(ko, "INOUT", {}).items():
            k = self.bykernel.get(name)
            if k is None:
                continue
            for sp in k.specializations:
                for a in sp.args:
                    if a.name in d:
                        a.dir = "out"
                        a.inout = True
        for name, ov in getattr(ko, "DEFINITION_PATCHES", {}).items():
            k = self.bykernel.get(name)
            if k is None or not all(old in k.source for old, _new in ov["replace"]):
                continue
            for old, new in ov["replace"]:
                k.source = k.source.replace(old, new)
            k.origin = "yaml-patched"
            k.override_reason = ov["reason"]
        for name, ov in getattr(ko, "DEFINITION_OVERRIDES", {}).items():
            k = self.bykernel.get(name)
            if k is None:
                continue
            if ov.get("only_if_yaml_contains") and ov["only_if_yaml_contains"] not in k.source:
                continue
            k.source = ov["source"]
            k.origin = "yaml-replaced"
            k.override_reason = ov["reason"]
        for name, ov in getattr(ko, "HARNESS_DEFINITIONS", {}).items():
            k = self.bykernel.get(name)
            if k is None or k.yaml_has_definition:
                continue       # the YAML gained a definition: it takes precedence
            k.source = ov["source"]
            k.origin = "harness"
            k.override_reason = ov["reason"]
        self.extra_globals = ko.extra_globals() if hasattr(ko, "extra_globals") else {}


_CACHE = {}


def load(repo=None):
    repo = repo or vbuild.repo_dir()
    p = os.path.join(repo, "kernel-specification.yml")
    key = (p, os.path.getmtime(p), os.path.getsize(p))
    if key not in _CACHE:
        _CACHE.clear()
        _CACHE[key] = Spec(repo)
    return _CACHE[key]


# ------------------------------------------------------------- the reference

class RefResult(object):
    __slots__ = ("status", "reason", "detail", "outputs", "extents", "inputs", "tight")

    def __init__(self):
        self.status = None      # "ok" | "error" | "rejected" | "broken"
        self.reason = None
        self.detail = None
        self.outputs = {}       # name -> {index: value}
        self.extents = {}       # name -> number of elements the definition implies
        self.inputs = {}        # name -> RecIn (or list of RecIn)
        self.tight = {}         # name -> True if the definition read the last element


DEFAULT_BUDGET = 200000


def typed_input(arg, value):
    """Logical value -> the value the kernel sees (what is stored in the C array)."""
    if arg.depth == 2:
        return [[cast(arg.t, x) for x in sub] for sub in value]
    if arg.depth == 1:
        return [cast(arg.t, x) for x in value]
    return cast(arg.t, value)


def has_unsigned_inputs(spec):
    return any(a.is_list and not a.is_out and a.t.kind == "uint" for a in spec.args)


def same_result(r1, r2):
    return r1.status == r2.status and r1.extents == r2.extents and _same_outputs(r1.outputs, r2.outputs)


def _same_outputs(a, b):
    if a.keys() != b.keys():
        return False
    for k in a:
        x, y = a[k], b[k]
        if isinstance(x, list):
            if len(x) != len(y) or any(not _same_map(p, q) for p, q in zip(x, y)):
                return False
        elif not _same_map(x, y):
            return False
    return True


def _same_map(x, y):
    if x.keys() != y.keys():
        return False
    for i, v in x.items():
        w = y[i]
        if v != w and not (v != v and w != w):
            return False
    return True


def run_definition(spec, args, budget=DEFAULT_BUDGET, unsigned_wrap=False):
    """Run the kernel's definition on `args` typed as in specialization `spec`.

    unsigned_wrap: values read from unsigned input arrays behave like C operands of that type
    (uint32 - uint32 wraps modulo 2**32 before any widening), the one place where the unbounded
    integers of the YAML text and the compiled template can part on *invalid* input.

    args: {name: value} for every `in` argument (lists for arrays) and, for
    in/out arguments, the initial contents of the output list.
    """
    k = spec.kernel
    res = RefResult()
    func, g = k.function()
    if func is None:
        res.status = "broken"
        res.reason = "definition-does-not-compile"
        res.detail = k.compile_error
        return res
    call = {}
    outs = {}
    nested = {}
    for a in spec.args:
        if a.is_out and a.depth == 2:
            # a table of output arrays: the tuple gives their number
            subs = [RecOut("%s[%d]" % (a.name, j), a.t) for j in range(int(args.get(a.name, 0)))]
            nested[a.name] = subs
            call[a.name] = RecIn(a.name, subs)
        elif a.is_out:
            init = args.get(a.name)
            if init is not None:
                init = [cast(a.t, x) for x in init]
            o = RecOut(a.name, a.t, init)
            outs[a.name] = o
            call[a.name] = o
        elif a.depth == 2:
            subs = [RecIn("%s[%d]" % (a.name, j), [cast(a.t, x) for x in sub])
                    for j, sub in enumerate(args[a.name])]
            r = RecIn(a.name, subs)
            res.inputs[a.name] = r
            call[a.name] = r
        elif a.depth == 1:
            data = [cast(a.t, x) for x in args[a.name]]
            if unsigned_wrap and a.t.kind == "uint":
                U = _UINT[a.t.bits]
                data = [U(x) for x in data]
            r = RecIn(a.name, data)
            res.inputs[a.name] = r
            call[a.name] = r
        else:
            call[a.name] = cast(a.t, args[a.name])
    g["__tick"] = _Budget(budget)
    try:
        func(**call)
        res.status = "ok"
    except ValueError as e:
        res.status = "error"
        res.detail = str(e)[:200]
    except SpecReject as e:
        res.status = "rejected"
        res.reason = e.reason
        res.detail = str(e)[:200]
    except IndexError as e:
        # only harness-written references index plain Python lists
        res.status = "rejected"
        res.reason = "index-out-of-bounds"
        res.detail = str(e)[:200]
    except ZeroDivisionError as e:
        res.status = "rejected"
        res.reason = "division-by-zero"
        res.detail = str(e)
    except RecursionError:
        res.status = "rejected"
        res.reason = "iteration-budget"
        res.detail = "recursion"
    except (OverflowError, MemoryError) as e:
        res.status = "rejected"
        res.reason = "huge-extent"
        res.detail = "%s: %s" % (type(e).__name__, e)
    except Exception as e:
        res.status = "broken"
        res.reason = "definition-raises-%s" % type(e).__name__
        res.detail = str(e)[:300]
    for name, o in outs.items():
        res.outputs[name] = o.w
        res.extents[name] = o.extent()
    for name, subs in nested.items():
        res.outputs[name + "[]"] = [o.w for o in subs]
        res.extents[name + "[]"] = [o.extent() for o in subs]
    for name, r in res.inputs.items():
        res.tight[name] = (r.n == 0) or (r.maxread == r.n - 1)
    return res


if __name__ == "__main__":
    s = load()
    print(len(s.kernels), "kernels", len(s.specializations), "specializations",
          sum(1 for k in s.kernels if not k.has_definition), "without definition")
    bad = 0
    for k in s.kernels:
        if k.has_definition:
            f, _ = k.function()
            if f is None:
                bad += 1
                print("does not compile:", k.name, k.compile_error)
    print(bad, "definitions do not compile")
