"""Lane P: the repository's own Python package `awkward` (src/awkward) running on the libraries built by
vbuild, with /verif/akext standing in for the compiled extension module `awkward._ext`.

    from vlib import lanep
    ak = lanep.load("plain")            # or "asan" (process must have been started with vbuild.asan_env())

`load` (a) builds/locates the libraries, (b) installs a meta-path finder that serves `awkward` from
$VERIF_REPO/src, `awkward._ext` from akext, `awkward._kernel_signatures` from the vbuild `gen` directory and a
stub `pkg_resources`, (c) points the package's ctypes loaders at the vbuild output (the same library instance
the bridge uses) and (d) applies the harness-side compatibility shims listed in SHIMS.

Environment:
    VERIF_REPO        repository checkout (default /repo); Python sources are taken from $VERIF_REPO/src
    LANEP_BUILDDIR    use this directory (holding libawkward.so, libawkward-cpu-kernels.so, libakbridge.so, gen/)
                      instead of calling vbuild.ensure()
"""
from __future__ import absolute_import, print_function

import importlib
import importlib.abc
import importlib.machinery
import importlib.util
import os
import sys
import types

HERE = os.path.dirname(os.path.abspath(__file__))
ROOT = os.path.dirname(HERE)
if ROOT not in sys.path:
    sys.path.insert(0, ROOT)

import vbuild  # noqa: E402

_state = {"variant": None, "builddir": None, "awkward": None, "repo": None}

# name -> one-line reason; every entry is a monkeypatch applied from this file (never an edit of /repo)
SHIMS = {}
# operation family -> reason why it cannot run here without editing the repository
ENV_EXCLUDED = {
    "cuda": "no GPU/cupy/awkward_cuda_kernels in the sandbox: ak.to_kernels(..., 'cuda'), copy_to('cuda'), "
            "from_cupy/to_cupy",
    "numexpr": "ak.numexpr.evaluate/re_evaluate (src/awkward/_connect/_numexpr.py) call private numexpr internals that "
               "changed in numexpr >= 2.8.5 (necompiler.getContext(frame_depth=) renamed, necompiler._names_cache is now "
               "thread-local storage); not shimmable without re-implementing the repo function",
    "awkward0": "ak.from_awkward0/to_awkward0 need awkward0, whose 0.15.5 release calls numpy.array(copy=False) in a way "
                "NumPy 2 rejects",
    "jax.jvp/vjp on 0-d results": "jax 0.11 returns 0-d jax Arrays where 2021 jax returned values ak.to_list could "
                                  "iterate (tests/test_0793 test_numpyarray_grad_3)",
}


class LanePError(RuntimeError):
    pass


def _shim(name, reason):
    def deco(f):
        SHIMS[name] = reason
        f._shim_name = name
        return f
    return deco


# ---------------------------------------------------------------- shims: NumPy 2

@_shim("numpy.removed_aliases",
       "NumPy 2 removed np.bool/np.object/np.int/np.float/np.complex/np.str/np.float_/np.complex_/np.unicode_/"
       "np.string_/np.product/np.cumproduct/np.alltrue/np.sometrue/np.in1d/np.row_stack/np.Inf/np.NaN/np.infty; "
       "1.4.0 sources and tests were written for NumPy 1.x")
def _shim_numpy_aliases():
    import warnings
    import numpy
    table = {
        "bool": bool, "object": object, "int": int, "float": float, "complex": complex, "str": str,
        "float_": numpy.float64, "complex_": numpy.complex128, "unicode_": numpy.str_, "string_": numpy.bytes_,
        "product": numpy.prod, "cumproduct": numpy.cumprod, "alltrue": numpy.all, "sometrue": numpy.any,
        "Inf": numpy.inf, "NaN": numpy.nan, "infty": numpy.inf, "PINF": numpy.inf, "NINF": -numpy.inf,
        "round_": numpy.round, "asfarray": lambda a, dtype=numpy.float64: numpy.asarray(a, dtype=dtype),
    }
    if hasattr(numpy, "isin"):
        table["in1d"] = lambda a, b, **kw: numpy.isin(numpy.ravel(a), b, **kw)
    table["row_stack"] = numpy.vstack
    for name, value in table.items():
        with warnings.catch_warnings():
            warnings.simplefilter("ignore")
            try:
                present = hasattr(numpy, name)
            except Exception:
                present = False
        if not present:
            setattr(numpy, name, value)


# ---------------------------------------------------------------- shims: pkg_resources

def _make_pkg_resources(builddir, repo_src):
    m = types.ModuleType("pkg_resources", "lanep stub: setuptools >= 81 no longer ships pkg_resources")

    def resource_filename(package_or_requirement, resource_name):
        if package_or_requirement == "awkward":
            if resource_name in ("libawkward.so", "libawkward-cpu-kernels.so"):
                return os.path.join(builddir, resource_name)
            if resource_name == "include":
                return os.path.join(os.path.dirname(repo_src), "include")
            if resource_name == "":
                return builddir
            return os.path.join(repo_src, "awkward", resource_name)
        mod = importlib.import_module(package_or_requirement)
        return os.path.join(os.path.dirname(mod.__file__), resource_name)

    m.resource_filename = resource_filename
    m.__lanep_stub__ = True
    return m


# ---------------------------------------------------------------- shims: numba

@_shim("numba.core.cgutils.pointer_add",
       "numba >= 0.5x pointer_add uses GEP and needs a pointer operand; the repo (1.4.0, numba 0.50 era) passes "
       "integer base addresses, which the old ptrtoint/add/inttoptr form accepted")
def _post_numba_cgutils(cgutils):
    if getattr(cgutils.pointer_add, "_lanep", False):
        return
    intp_t = cgutils.intp_t

    def pointer_add(builder, ptr, offset, return_type=None):
        """Add an integral *offset* to pointer *ptr*, and return a pointer of *return_type* (or, if omitted,
        the same type as *ptr*).  (The form numba had until 0.55.)"""
        intptr = builder.ptrtoint(ptr, intp_t)
        if isinstance(offset, int):
            offset = intp_t(offset)
        intptr = builder.add(intptr, offset)
        return builder.inttoptr(intptr, return_type or ptr.type)

    pointer_add._lanep = True
    cgutils.pointer_add = pointer_add


# ---------------------------------------------------------------- the finder

class _Finder(importlib.abc.MetaPathFinder, importlib.abc.Loader):
    def __init__(self, repo_src, builddir, kernel_signatures):
        self.repo_src = repo_src
        self.builddir = builddir
        self.kernel_signatures = kernel_signatures      # (path, source text) read when the build was pinned
        self.ext = None

    def find_spec(self, fullname, path=None, target=None):
        if fullname == "awkward":
            return importlib.machinery.PathFinder.find_spec("awkward", [self.repo_src])
        if fullname == "awkward._ext":
            return importlib.machinery.ModuleSpec(fullname, self, origin="akext")
        if fullname == "awkward._kernel_signatures":
            return importlib.machinery.ModuleSpec(fullname, self, origin=self.kernel_signatures[0])
        if fullname == "pkg_resources":
            return importlib.machinery.ModuleSpec(fullname, self, origin="lanep stub")
        if fullname in _POST_EXEC:
            spec = importlib.machinery.PathFinder.find_spec(fullname, path)
            if spec is not None and spec.loader is not None:
                spec.loader = _PostExecLoader(spec.loader, _POST_EXEC[fullname])
            return spec
        return None

    def create_module(self, spec):
        if spec.name == "awkward._ext":
            import akext
            if self.ext is None:
                self.ext = akext.make_module("awkward._ext")
            return self.ext
        if spec.name == "pkg_resources":
            return _make_pkg_resources(self.builddir, self.repo_src)
        return None

    def exec_module(self, module):
        if module.__name__ == "awkward._kernel_signatures":
            path, text = self.kernel_signatures
            module.__file__ = path
            exec(compile(text, path, "exec"), module.__dict__)
        return None


class _PostExecLoader(importlib.abc.Loader):
    """runs the original loader, then a shim on the freshly executed module"""

    def __init__(self, inner, post):
        self.inner = inner
        self.post = post

    def create_module(self, spec):
        return self.inner.create_module(spec)

    def exec_module(self, module):
        self.inner.exec_module(module)
        self.post(module)

    def __getattr__(self, name):
        return getattr(self.inner, name)


@_shim("awkward._connect._numpy.NDArrayOperatorsMixin",
       "numpy.lib.mixins.NDArrayOperatorsMixin gained __slots__ = () (NumPy >= 1.23?); with CPython 3.12's object "
       "layout rules `self.__class__ = <behavior subclass>` in ak.Array.__init__ then fails with 'object layout "
       "differs'; the mixin is replaced by a slot-less copy (same methods, base object) before highlevel.py is "
       "executed")
def _post_connect_numpy(module):
    base = module.NDArrayOperatorsMixin
    if getattr(base, "__slots__", None) == ():
        ns = dict((k, v) for k, v in base.__dict__.items() if k not in ("__slots__", "__dict__", "__weakref__"))
        module.NDArrayOperatorsMixin = type("NDArrayOperatorsMixin", (object,), ns)


@_shim("pyarrow.parquet.ParquetWriter(use_compliant_nested_type=False)",
       "pyarrow >= 14 writes list items as '<col>.list.element' by default; the repo's lazy Parquet reader (and its "
       "tests) expect the pyarrow 2-5 naming '<col>.list.item', so the old default is restored for writers")
def _post_pyarrow_parquet(module):
    import functools
    import inspect
    cls = module.ParquetWriter
    orig = cls.__init__
    if getattr(orig, "_lanep", False):
        return
    try:
        has = "use_compliant_nested_type" in inspect.signature(orig).parameters
    except (TypeError, ValueError):
        has = False
    if not has:
        return

    @functools.wraps(orig)
    def __init__(self, *args, **kwargs):
        kwargs.setdefault("use_compliant_nested_type", False)
        return orig(self, *args, **kwargs)

    __init__._lanep = True
    cls.__init__ = __init__


@_shim("numba_extensions entry point",
       "setup.cfg declares the entry point numba_extensions:init = awkward._connect._numba:register, which only "
       "exists for a pip-installed package; numba.core.entrypoints.init_all() is wrapped to call that function")
def _post_numba_entrypoints(module):
    orig = module.init_all
    if getattr(orig, "_lanep", False):
        return

    def init_all():
        first = not module._already_initialized
        import warnings
        with warnings.catch_warnings():
            # the awkward 2.x wheel in the venv registers 'awkward.numba:_register', which resolves to this package
            warnings.filterwarnings("ignore", message="Numba extension module 'awkward.numba' failed to load")
            orig()
        if first and "awkward" in sys.modules and getattr(sys.modules["awkward"], "_ext", None) is not None \
                and getattr(sys.modules["awkward"]._ext, "__akext__", False):
            try:
                sys.modules["awkward"]._connect._numba.register()
            except Exception as err:        # numba only warns when an extension fails to load
                import warnings
                warnings.warn("Numba extension module 'awkward._connect._numba' failed to load due to '%s(%s)'."
                              % (type(err).__name__, err))

    init_all._lanep = True
    init_all.__doc__ = orig.__doc__
    module.init_all = init_all


@_shim("numba typing templates: old-style error capturing",
       "numba >= 0.59 ('new_style' captured errors, the only style in 0.67) propagates non-NumbaError exceptions "
       "raised inside typing templates; the repo's templates (numba 0.50 era) signal 'no match' with TypeError/"
       "ValueError, which old numba turned into TypingError.  Exceptions raised from the repo's own typing code are "
       "converted to TypingError in AbstractTemplate.apply / AttributeTemplate.resolve")
def _post_numba_templates(module):
    import numba.core.errors as errors
    if getattr(module.AbstractTemplate.apply, "_lanep", False):
        return
    repo_pkg = os.path.join(vbuild.repo_dir(), "src", "awkward") + os.sep

    def raised_in_repo(err):
        tb = err.__traceback__
        last = None
        while tb is not None:
            last = tb
            tb = tb.tb_next
        return last is not None and last.tb_frame.f_code.co_filename.startswith(repo_pkg)

    def wrap(orig):
        def method(self, *args, **kwargs):
            try:
                return orig(self, *args, **kwargs)
            except errors.NumbaError:
                raise
            except Exception as err:
                if raised_in_repo(err):
                    raise errors.TypingError(str(err)) from err
                raise
        method._lanep = True
        method.__name__ = orig.__name__
        method.__doc__ = orig.__doc__
        return method

    module.AbstractTemplate.apply = wrap(module.AbstractTemplate.apply)
    module.AttributeTemplate.resolve = wrap(module.AttributeTemplate.resolve)


@_shim("jax.Array.device_buffer",
       "jax >= 0.4.2x removed Array.device_buffer; the binding's NumpyArray.from_jax / Index.from_jax read "
       "array.device_buffer.device().platform, so a minimal object with device() is put back on ArrayImpl")
def _post_jax_array(module):
    cls = getattr(module, "ArrayImpl", None)
    if cls is None:
        return
    prop = cls.__dict__.get("device_buffer")
    if prop is None or getattr(prop, "_lanep", False):
        return

    class _DeviceBuffer(object):
        def __init__(self, array):
            self._array = array

        def device(self):
            return sorted(self._array.devices(), key=lambda d: d.id)[0]

    class _Prop(property):
        _lanep = True

    cls.device_buffer = _Prop(lambda self: _DeviceBuffer(self))


@_shim("llvmlite.llvmpy.core.Type",
       "llvmlite >= 0.39 removed the llvmpy compatibility layer; the repo's Numba lowering uses "
       "llvmlite.llvmpy.core.Type.int/.pointer, which are re-provided on top of llvmlite.ir")
def _post_llvmlite(module):
    if hasattr(module, "llvmpy") or "llvmlite.llvmpy" in sys.modules:
        return
    try:
        if importlib.machinery.PathFinder.find_spec("llvmlite.llvmpy", module.__path__) is not None:
            return
    except Exception:
        pass
    import llvmlite.ir as ir

    llvmpy = types.ModuleType("llvmlite.llvmpy", "lanep stub of the removed llvmlite.llvmpy layer")
    core = types.ModuleType("llvmlite.llvmpy.core", "lanep stub of the removed llvmlite.llvmpy.core")

    class Type(object):
        @staticmethod
        def int(width=32):
            return ir.IntType(width)

        @staticmethod
        def float():
            return ir.FloatType()

        @staticmethod
        def double():
            return ir.DoubleType()

        @staticmethod
        def void():
            return ir.VoidType()

        @staticmethod
        def pointer(ty, addrspace=0):
            return ir.PointerType(ty, addrspace)

        @staticmethod
        def function(res, args, var_arg=False):
            return ir.FunctionType(res, args, var_arg=var_arg)

        @staticmethod
        def struct(members):
            return ir.LiteralStructType(members)

        @staticmethod
        def array(element, count):
            return ir.ArrayType(element, count)

    class Constant(object):
        @staticmethod
        def int(ty, val):
            return ir.Constant(ty, val)

        @staticmethod
        def null(ty):
            return ir.Constant(ty, None)

        @staticmethod
        def real(ty, val):
            return ir.Constant(ty, val)

    core.Type = Type
    core.Constant = Constant
    llvmpy.core = core
    llvmpy.__path__ = []
    sys.modules["llvmlite.llvmpy"] = llvmpy
    sys.modules["llvmlite.llvmpy.core"] = core
    module.llvmpy = llvmpy


_POST_EXEC = {"awkward._connect._numpy": _post_connect_numpy, "pyarrow.parquet": _post_pyarrow_parquet,
              "llvmlite": _post_llvmlite, "numba.core.typing.templates": _post_numba_templates,
              "jax._src.array": _post_jax_array,
              "numba.core.entrypoints": _post_numba_entrypoints, "numba.core.cgutils": _post_numba_cgutils}


def _need_pkg_resources_stub():
    try:
        spec = importlib.util.find_spec("pkg_resources")
    except Exception:
        spec = None
    return spec is None


# ---------------------------------------------------------------- load

def _check_asan():
    pre = os.environ.get("LD_PRELOAD", "")
    if "asan" not in pre:
        raise LanePError(
            "lanep.load('asan'): the AddressSanitizer runtime must be preloaded before Python starts; run the "
            "process with the environment from vbuild.asan_env() (LD_PRELOAD=%s)" % vbuild.ASAN_RT)
    try:
        maps = open("/proc/self/maps").read()
    except Exception:
        maps = "asan"
    if "asan" not in maps:
        raise LanePError("lanep.load('asan'): LD_PRELOAD is set but the ASan runtime is not mapped into this process")


def load(variant="plain", verbose=False):
    """-> the repository's `awkward` package, importable and bound to the vbuild libraries of `variant`"""
    if _state["awkward"] is not None:
        if variant != _state["variant"]:
            raise LanePError("lanep is already loaded with variant %r" % _state["variant"])
        return _state["awkward"]
    if variant not in vbuild.VARIANTS:
        raise LanePError("unknown variant %r" % (variant,))
    if variant == "asan":
        _check_asan()
    repo = vbuild.repo_dir()
    repo_src = os.path.join(repo, "src")
    if not os.path.isdir(os.path.join(repo_src, "awkward")):
        raise LanePError("no Python sources in %s" % repo_src)

    loaded = sys.modules.get("awkward")
    if loaded is not None:
        raise LanePError("a module named 'awkward' is already imported from %s; lanep.load() must run before "
                         "`import awkward`" % getattr(loaded, "__file__", "?"))

    from akext import _lib
    builddir = os.environ.get("LANEP_BUILDDIR")
    kernel_signatures = None
    for attempt in range(4):
        if not os.environ.get("LANEP_BUILDDIR"):
            builddir = vbuild.ensure(variant, verbose=verbose)
        # vbuild prunes old output directories while other jobs build: pin everything this process needs right
        # away (an already mapped library stays usable, and dlopen() of the very same path string finds it again)
        try:
            import ctypes
            for name in ("libawkward-cpu-kernels.so", "libawkward.so"):
                ctypes.CDLL(os.path.join(builddir, name), mode=ctypes.RTLD_GLOBAL)
            sigpath = os.path.join(repo_src, "awkward", "_kernel_signatures.py")
            if not os.path.exists(sigpath):
                sigpath = os.path.join(builddir, "gen", "src", "awkward", "_kernel_signatures.py")
            with open(sigpath) as f:
                kernel_signatures = (sigpath, f.read())
            # (a) the bridge; akext uses the same libawkward.so instance (rpath $ORIGIN of libakbridge.so)
            _lib.init(builddir)
            break
        except OSError as err:
            if os.environ.get("LANEP_BUILDDIR") or attempt == 3:
                raise LanePError("cannot load the libraries from %s: %s" % (builddir, err))

    # (d) shims that must be in place before the package is imported
    _shim_numpy_aliases()
    for name, post in _POST_EXEC.items():
        if name in sys.modules:              # already imported: patch in place
            post(sys.modules[name])
    for f in _LATE_SHIMS_BEFORE_IMPORT:
        f()

    # (b) finder
    finder = _Finder(repo_src, builddir, kernel_signatures)
    sys.meta_path.insert(0, finder)
    if not _need_pkg_resources_stub():
        # a real pkg_resources exists: patch its resource_filename for the 'awkward' package only
        import pkg_resources
        stub = _make_pkg_resources(builddir, repo_src)
        real = pkg_resources.resource_filename

        def resource_filename(package_or_requirement, resource_name):
            if package_or_requirement == "awkward":
                return stub.resource_filename(package_or_requirement, resource_name)
            return real(package_or_requirement, resource_name)

        pkg_resources.resource_filename = resource_filename
    SHIMS["awkward._kernel_signatures"] = (
        "generated by dev/generate-kernel-signatures.py at build time and absent from a source checkout: served from "
        "the vbuild gen/ directory (generated from the same kernel-specification.yml as the built kernels)")
    SHIMS["pkg_resources.resource_filename"] = (
        "setuptools >= 81 dropped pkg_resources and the repo is not pip-installed: resource_filename('awkward', "
        "'libawkward*.so') is answered with the vbuild output directory (the library instance the bridge uses)")

    import warnings
    with warnings.catch_warnings():
        warnings.simplefilter("ignore")
        ak = importlib.import_module("awkward")
    if os.path.realpath(os.path.dirname(ak.__file__)) != os.path.realpath(os.path.join(repo_src, "awkward")):
        raise LanePError("imported awkward from %s, expected %s" % (ak.__file__, repo_src))
    if not getattr(ak._ext, "__akext__", False):
        raise LanePError("awkward._ext is not the akext stand-in")

    for f in _LATE_SHIMS_AFTER_IMPORT:
        f(ak)

    _state.update(variant=variant, builddir=builddir, awkward=ak, repo=repo)
    return ak


def builddir():
    return _state["builddir"]


_LATE_SHIMS_BEFORE_IMPORT = []
_LATE_SHIMS_AFTER_IMPORT = []
