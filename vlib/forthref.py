"""Reference interpreter of the *documented* AwkwardForth semantics (the oracle of check C19).

Written from: standard Forth (stack / arithmetic / control words), the error vocabulary of util::ForthError and the
texts of the compile-time error messages, the Python prototype studies/awkward-forth/virtual-machine.py (do-loops run
while i < stop, truth is -1, floor division, `exit` leaves the current word and drops its loops, variables start at 0),
and the worked examples in tests/test_0648*.py (arithmetic right shift, varint / zigzag / Nbit packing, `dup` on
outputs, pause/resume leaves the final state unchanged).  It is NOT a transliteration of ForthMachine.cpp: it is a
tree-walking interpreter over a parsed program, integers are Python ints wrapped at the machine width after every
operation, outputs are byte strings built with struct/numpy casts.

Three-valued: a program either gets an opinion (Result), or the reference ABSTAINS (raise Abstain(reason)) because
the documentation does not determine the behaviour (shift counts outside [0, width), float -> integer conversion
out of range, literals beyond 32 bits, negative repeat counts, ...), or it exceeds its instruction budget
(raise Budget) which means "not known to terminate" and the caller must not run the program with run().

    prog = forthref.compile_source(src)              # CompileError | Abstain
    res  = forthref.execute(prog, bits, inputs, stack_max_depth=.., recursion_max_depth=.., budget=..)
    res.errors  (set of acceptable error names, {"none"} for a normal end)   res.stack  res.variables
    res.positions  res.outputs {name: (dtype, nitems, bytes)}  res.events  res.words  res.alternatives
"""
import re
import struct

import numpy as np


class CompileError(Exception):
    pass


class Abstain(Exception):
    """the documentation does not determine the behaviour of this program"""

    def __init__(self, reason, events=()):
        Exception.__init__(self, reason)
        self.reason = reason
        self.events = set(events)


class Budget(Exception):
    """instruction budget exhausted: termination unknown"""


class _Stop(Exception):
    def __init__(self, error, also=()):
        Exception.__init__(self, error)
        self.error = error
        self.also = set(also)         # further error codes that are equally acceptable


ANY_ERROR = "<any error>"


class _Unknown(object):
    """a value the documentation does not determine (e.g. an out-of-range float converted to an integer): it flows
    through arithmetic, stack words, variables and outputs; the comparison skips it.  Control flow, counts and
    positions that depend on it make the reference abstain."""

    def __repr__(self):
        return "?"


U = _Unknown()

DTYPES = {"bool": ("?", 1), "int8": ("b", 1), "int16": ("h", 2), "int32": ("i", 4), "int64": ("q", 8),
          "uint8": ("B", 1), "uint16": ("H", 2), "uint32": ("I", 4), "uint64": ("Q", 8),
          "float32": ("f", 4), "float64": ("d", 8)}
NP = {"bool": np.bool_, "int8": np.int8, "int16": np.int16, "int32": np.int32, "int64": np.int64, "uint8": np.uint8,
      "uint16": np.uint16, "uint32": np.uint32, "uint64": np.uint64, "float32": np.float32, "float64": np.float64}

# typed reads: letter -> (struct code, size, kind); n/N are the platform's ssize_t/size_t (8 bytes on this platform)
READS = {"?": ("?", 1, "bool"), "b": ("b", 1, "int"), "h": ("h", 2, "int"), "i": ("i", 4, "int"), "q": ("q", 8, "int"),
         "n": ("q", 8, "int"), "B": ("B", 1, "int"), "H": ("H", 2, "int"), "I": ("I", 4, "int"), "Q": ("Q", 8, "int"),
         "N": ("Q", 8, "int"), "f": ("f", 4, "float"), "d": ("d", 8, "float")}
READ_DTYPE = {"?": "bool", "b": "int8", "h": "int16", "i": "int32", "q": "int64", "n": "int64", "B": "uint8",
              "H": "uint16", "I": "uint32", "Q": "uint64", "N": "uint64", "f": "float32", "d": "float64"}

PLAIN = ["dup", "drop", "swap", "over", "rot", "nip", "tuck", "+", "-", "*", "/", "mod", "/mod", "negate", "1+", "1-",
         "abs", "min", "max", "=", "<>", ">", ">=", "<", "<=", "0=", "invert", "and", "or", "xor", "lshift", "rshift",
         "false", "true", "i", "j", "k", ".", "cr", ".s"]
STRUCTURE = ["(", ")", "\\", ":", ";", "recurse", "variable", "input", "output", "halt", "pause", "if", "then", "else",
             "do", "loop", "+loop", "begin", "again", "until", "while", "repeat", "exit", "!", "+!", "@", "len", "pos",
             "end", "seek", "skip", "<-", "+<-", "stack", "rewind", ".\"", "s\""]
_PARSER_RE = re.compile(r"^(#?)(!?)(\?|b|h|i|q|n|B|H|I|Q|N|f|d|varint|zigzag|(\d+)bit)->$")
_DEC = re.compile(r"^-?[0-9]+$")
_HEX = re.compile(r"^0x[0-9a-fA-F]+$")
_NUMLIKE = re.compile(r"^[+-]?[0-9]|^[+-]?0x")


def parser_word(tok):
    """-> (repeated, bigendian, kind, nbits) for a documented `*->` word, else None"""
    m = _PARSER_RE.match(tok)
    if not m:
        return None
    rep, big, kind, nb = bool(m.group(1)), bool(m.group(2)), m.group(3), m.group(4)
    if kind in ("?", "b", "B", "varint", "zigzag") and big:
        return None                      # no big-endian form of one-byte and variable-length reads
    if nb is not None:
        n = int(nb)
        if not 0 < n <= 64:
            return None
        return (rep, big, "nbit", n)
    return (rep, big, kind, 0)


def is_reserved(tok):
    return tok in STRUCTURE or tok in PLAIN or tok in DTYPES or tok in ("\n", "") or parser_word(tok) is not None


# ---------------------------------------------------------------------------------------------------- tokens

def tokenize(src):
    """whitespace-separated words; "\\n" is kept as a token (it ends `\\` comments); the text after `."` / `s"` up to
    the closing quote is one token"""
    toks = []
    i, n = 0, len(src)
    while i < n:
        c = src[i]
        if c == "\n":
            toks.append("\n")
            i += 1
        elif c in " \r\t\v\f":
            i += 1
        else:
            j = i
            while j < n and src[j] not in " \r\t\v\f\n":
                j += 1
            word = src[i:j]
            toks.append(word)
            i = j
            if word in (".\"", "s\""):
                while i < n and src[i] in " \r\t\v\f\n":
                    i += 1
                if i >= n:
                    raise CompileError("unclosed string")
                j = src.find("\"", i)
                if j < 0:
                    raise CompileError("unclosed string")
                text = src[i:j]
                if "\\" in text or "\n" in text:
                    raise Abstain("string with a backslash or a line break")
                toks.append(("str", text))
                i = j + 1
    return toks


class Program(object):
    def __init__(self):
        self.variables = []
        self.inputs = []
        self.outputs = []          # (name, dtype)
        self.words = {}            # name -> code
        self.word_order = []
        self.main = None
        self.strings = []
        self.has_loops = False     # begin / do / recurse present: termination is not structural
        self.ntokens = 0

    def names(self):
        return set(self.variables) | set(self.inputs) | set(n for n, _ in self.outputs) | set(self.words)


class _Parser(object):
    def __init__(self, toks):
        self.t = toks
        self.p = 0
        self.prog = Program()

    def peek(self):
        return self.t[self.p] if self.p < len(self.t) else None

    def next(self):
        tok = self.peek()
        self.p += 1
        return tok

    def new_name(self, what):
        name = self.next()
        if name is None or isinstance(name, tuple) or name == "\n":
            raise CompileError("missing name in %s" % what)
        if _DEC.match(name) or _HEX.match(name):
            raise CompileError("name is an integer")
        if _NUMLIKE.match(name) and not is_reserved(name):
            raise Abstain("name that starts like a number: %r" % name)
        if is_reserved(name) or name in self.prog.names():
            raise CompileError("names must be unique and not reserved: %r" % name)
        return name

    def block(self, enders, defn, dodepth, top):
        """parse items until one of `enders` (returned) or the end of the tokens (None)"""
        code = []
        while True:
            tok = self.next()
            if tok is None:
                if enders:
                    raise CompileError("missing closing %s" % "/".join(enders))
                return code, None
            if isinstance(tok, tuple):
                raise CompileError("string without s\" or .\"")
            if tok in enders:
                return code, tok
            if tok == "\n" or tok == "":
                continue
            self.prog.ntokens += 1
            if tok == "(":
                nest = 1
                while nest:
                    t2 = self.next()
                    if t2 is None:
                        raise CompileError("'(' is missing its closing ')'")
                    if t2 == "(":
                        nest += 1
                    elif t2 == ")":
                        nest -= 1
                continue
            if tok == "\\":
                while self.peek() is not None and self.peek() != "\n":
                    self.next()
                continue
            if tok in (":", "variable", "input", "output") and not top:
                # the documentation only shows declarations and definitions at the top level of a program
                raise Abstain("declaration or definition nested inside a definition or control structure")
            if tok == ":":
                if self.peek() == ";":
                    raise CompileError("missing name in word definition")
                name = self.new_name("word definition")
                self.prog.words[name] = None           # visible to its own body only through `recurse`
                self.prog.word_order.append(name)
                body, _ = self.block((";",), name, 0, False)
                self.prog.words[name] = body
                continue
            if tok == "variable":
                self.prog.variables.append(self.new_name("variable declaration"))
                continue
            if tok == "input":
                self.prog.inputs.append(self.new_name("input declaration"))
                continue
            if tok == "output":
                name = self.new_name("output declaration")
                dt = self.next()
                if dt is None or isinstance(dt, tuple):
                    raise CompileError("missing dtype in output declaration")
                if dt not in DTYPES:
                    raise CompileError("output dtype not recognized")
                self.prog.outputs.append((name, dt))
                continue
            if tok == "recurse":
                if defn is None:
                    raise CompileError("recurse only allowed in a definition")
                self.prog.has_loops = True
                code.append(("call", defn))
                continue
            if tok in ("halt", "pause", "exit"):
                code.append((tok,))
                continue
            if tok == "if":
                a, e = self.block(("else", "then"), defn, dodepth, False)
                b = None
                if e == "else":
                    b, e = self.block(("then",), defn, dodepth, False)
                code.append(("if", a, b))
                continue
            if tok == "do":
                self.prog.has_loops = True
                body, e = self.block(("loop", "+loop"), defn, dodepth + 1, False)
                code.append(("do", body, e == "+loop"))
                continue
            if tok == "begin":
                self.prog.has_loops = True
                a, e = self.block(("again", "until", "while"), defn, dodepth, False)
                if e == "while":
                    b, _ = self.block(("repeat",), defn, dodepth, False)
                    code.append(("while", a, b))
                else:
                    code.append((e, a))
                continue
            if tok in self.prog.variables:
                op = self.next()
                if op not in ("!", "+!", "@"):
                    raise CompileError("missing '!', '+!', or '@' after variable name")
                code.append(("var", op, self.prog.variables.index(tok)))
                continue
            if tok in self.prog.inputs:
                op = self.next()
                if op in ("len", "pos", "end", "seek", "skip"):
                    code.append(("in", op, tok))
                    continue
                pw = parser_word(op) if isinstance(op, str) else None
                if pw is None:
                    if isinstance(op, str) and re.match(r"^#?!(\?|b|B|varint|zigzag)->$", op):
                        # not in the documented vocabulary, but a `!` in front of a read that has no byte order is
                        # harmless: whether it must be refused is not stated
                        raise Abstain("big-endian prefix on a one-byte or variable-length read")
                    if isinstance(op, str) and re.match(r"^#?!?.*->$", op) and not is_reserved(op):
                        # e.g. 0bit->, 65bit->, !b->, x-> : refused by the documented vocabulary
                        raise CompileError("not a parser word: %r" % op)
                    raise CompileError("missing '*-> stack/output', 'seek', 'skip', 'end', 'pos', or 'len'")
                dest = self.next()
                if dest == "stack":
                    code.append(("read", tok, pw, None, op))
                elif dest in [n for n, _ in self.prog.outputs]:
                    code.append(("read", tok, pw, dest, op))
                else:
                    raise CompileError("missing 'stack' or 'output' after '*->'")
                continue
            if tok in [n for n, _ in self.prog.outputs]:
                op = self.next()
                if op in ("<-", "+<-"):
                    if self.next() != "stack":
                        raise CompileError("missing 'stack' after '%s'" % op)
                    code.append(("out", op, tok))
                elif op in ("dup", "len", "rewind"):
                    code.append(("out", op, tok))
                else:
                    raise CompileError("missing '<- stack', '+<- stack', 'dup', 'len', or 'rewind' after output name")
                continue
            if tok in ("s\"", ".\""):
                s = self.next()
                if not isinstance(s, tuple):
                    raise CompileError("unclosed string")
                code.append(("string" if tok == "s\"" else "print-string", len(self.prog.strings)))
                self.prog.strings.append(s[1])
                continue
            if tok in PLAIN:
                if tok in ("i", "j", "k"):
                    need = {"i": 1, "j": 2, "k": 3}[tok]
                    if dodepth < need:
                        raise CompileError("'%s' only allowed in a (nested) 'do' loop" % tok)
                code.append(("op", tok))
                continue
            if tok in self.prog.words and self.prog.words[tok] is not None:
                code.append(("call", tok))
                continue
            if tok in self.prog.words:
                # standard Forth hides a word inside its own definition (hence `recurse`); the documentation of
                # AwkwardForth does not say whether the name is visible there
                raise Abstain("a word that refers to itself by name")
            if _DEC.match(tok) or _HEX.match(tok):
                v = int(tok, 16) if tok.startswith("0x") else int(tok)
                if not -2 ** 31 <= v < 2 ** 31:
                    raise Abstain("integer literal beyond 32 bits")
                code.append(("lit", v))
                continue
            if _NUMLIKE.match(tok):
                raise Abstain("token that starts like a number but is not a documented integer: %r" % tok)
            raise CompileError("unrecognized word or wrong context for word: %r" % tok)


def compile_source(src):
    if "\x00" in src:
        raise Abstain("NUL byte in the source")
    p = _Parser(tokenize(src))
    main, _ = p.block((), None, 0, True)
    p.prog.main = main
    return p.prog


# ---------------------------------------------------------------------------------------------------- values

def _wrap(v, bits):
    if v is U:
        return U
    m = 1 << bits
    v &= m - 1
    return v - m if v >= (m >> 1) else v


def cast_int(v, dtype):
    """C cast of an integer to an output dtype -> bytes"""
    code, size = DTYPES[dtype]
    if dtype == "bool":
        return b"\x01" if v != 0 else b"\x00"
    if dtype in ("float32", "float64"):
        if -2 ** 63 <= v < 2 ** 63:
            a = np.array([v], dtype=np.int64)
        else:
            a = np.array([v], dtype=np.uint64)
        return a.astype(NP[dtype]).tobytes()
    bits = size * 8
    v &= (1 << bits) - 1
    return v.to_bytes(size, "little")


def cast_float(x, dtype, events):
    """C cast of a double to an output dtype -> bytes (Abstain when C leaves it undefined)"""
    code, size = DTYPES[dtype]
    if dtype == "bool":
        return b"\x01" if x != 0 else b"\x00"
    if dtype == "float64":
        return struct.pack("<d", x)
    if dtype == "float32":
        if x != x:
            raise Abstain("NaN converted between float widths", events)
        with np.errstate(all="ignore"):
            return np.array([x], dtype=np.float64).astype(np.float32).tobytes()
    if x != x or x in (float("inf"), float("-inf")):
        raise Abstain("non-finite float converted to an integer", events)
    t = int(x)
    lo, hi = (0, 2 ** (8 * size)) if dtype.startswith("u") else (-2 ** (8 * size - 1), 2 ** (8 * size - 1))
    if not lo <= t < hi:
        raise Abstain("float converted to an integer type that cannot hold it", events)
    return (t & ((1 << (8 * size)) - 1)).to_bytes(size, "little")


def unpack_item(raw, dtype):
    code, size = DTYPES[dtype]
    if dtype == "bool":
        return 1 if raw != b"\x00" else 0
    return struct.unpack("<" + code, raw)[0]


_BITREV = [int("{:08b}".format(i)[::-1], 2) for i in range(256)]


class Result(object):
    def __init__(self):
        self.errors = {"none"}
        self.stack = []
        self.variables = []
        self.positions = {}
        self.outputs = {}
        self.events = set()
        self.words = {}
        self.steps = 0
        self.max_stack = 0
        self.max_words = 1        # nesting of user-defined words (+1 for the program itself)
        self.max_blocks = 1       # nesting counting every control-structure body as well
        self.max_do = 0
        self.compare = ("stack", "variables", "positions", "outputs")
        self.alternatives = None  # other acceptable Results (when the documentation admits more than one outcome)
        self.failed_at = None
        self.unknown_outputs = set()   # outputs that received an undetermined value: only dtype and length are known

    def summary(self):
        return {"errors": sorted(self.errors), "stack": ["?" if v is U else v for v in self.stack],
                "variables": [[n, "?" if v is U else v] for n, v in self.variables],
                "positions": self.positions,
                "outputs": dict((k, [v[0], v[1], "?" if k in self.unknown_outputs else v[2].hex()])
                                for k, v in self.outputs.items())}


class _Frame(object):
    __slots__ = ("code", "pc", "kind", "word", "i", "stop", "step", "phase", "node")

    def __init__(self, code, kind, word=None):
        self.code = code
        self.pc = 0
        self.kind = kind
        self.word = word
        self.phase = 0
        self.node = None


class _Machine(object):
    def __init__(self, prog, bits, inputs, stack_max_depth, recursion_max_depth, budget, depth_rule):
        self.prog = prog
        self.bits = bits
        self.smax = stack_max_depth
        self.rmax = recursion_max_depth
        self.budget = budget
        self.depth_rule = depth_rule       # "blocks": every body counts; "words": only user-defined words count
        self.res = Result()
        self.stack = []
        self.vars = [0] * len(prog.variables)
        self.inp = dict((n, bytes(inputs[n])) for n in prog.inputs)
        self.pos = dict((n, 0) for n in prog.inputs)
        self.out = dict((n, bytearray()) for n, _ in prog.outputs)
        self.odt = dict(prog.outputs)
        self.frames = []
        self.ambiguous_depth = False

    # -- stack
    def need(self, n):
        if len(self.stack) < n:
            raise _Stop("stack_underflow")

    def room(self, n=1):
        if len(self.stack) + n > self.smax:
            raise _Stop("stack_overflow")

    def push(self, v):
        if len(self.stack) >= self.smax:
            raise _Stop("stack_overflow")
        self.stack.append(_wrap(v, self.bits))
        if len(self.stack) > self.res.max_stack:
            self.res.max_stack = len(self.stack)

    def pop(self):
        if not self.stack:
            raise _Stop("stack_underflow")
        return self.stack.pop()

    def pop_known(self, what):
        """a value that decides control flow, a count or a position must be determined"""
        v = self.pop()
        if v is U:
            raise Abstain(what + " depends on an undetermined value")
        return v

    def unknown_out(self, name):
        self.res.unknown_outputs.add(name)
        self.ev("undetermined-value-written")
        return b"\x00" * DTYPES[self.odt[name]][1]

    def ev(self, name):
        self.res.events.add(name)

    def tick(self):
        self.res.steps += 1
        if self.res.steps > self.budget:
            raise Budget()

    def word(self, name):
        self.res.words[name] = self.res.words.get(name, 0) + 1

    # -- frames
    def enter(self, code, kind, word=None):
        nwords = 1 + sum(1 for f in self.frames if f.kind == "word")
        nblocks = len(self.frames)
        if self.depth_rule == "blocks":
            if nblocks >= self.rmax:
                if nwords + (1 if kind == "word" else 0) <= self.rmax:
                    self.ambiguous_depth = True
                raise _Stop("recursion_depth_exceeded")
        else:
            if kind == "word" and nwords >= self.rmax:
                raise _Stop("recursion_depth_exceeded")
        f = _Frame(code, kind, word)
        self.frames.append(f)
        if kind == "word":
            nwords += 1
        self.res.max_words = max(self.res.max_words, nwords)
        self.res.max_blocks = max(self.res.max_blocks, len(self.frames))
        return f

    def active_do(self):
        return [f for f in self.frames if f.kind == "do"]

    # -- main loop
    def run(self):
        res = self.res
        try:
            self.enter(self.prog.main, "main")
            while self.frames:
                f = self.frames[-1]
                if f.pc >= len(f.code):
                    self.block_end(f)
                    continue
                op = f.code[f.pc]
                f.pc += 1
                res.steps += 1
                if res.steps > self.budget:
                    raise Budget()
                res.failed_at = op
                self.execute(op)
            res.failed_at = None
        except _Stop as s:
            res.errors = {s.error} | s.also
            if s.error == "user_halt":
                res.failed_at = None
            else:
                # the state an error leaves behind is not documented (partial effects of the failing word):
                # only the values of the variables, which no failing word can have touched, are compared
                res.compare = ("variables",)
        except Abstain as a:
            a.events |= res.events
            raise
        res.stack = list(self.stack)
        res.variables = [[n, v] for n, v in zip(self.prog.variables, self.vars)]
        res.positions = dict(self.pos)
        for n, dt in self.prog.outputs:
            raw = bytes(self.out[n])
            res.outputs[n] = (dt, len(raw) // DTYPES[dt][1], raw)
        return res

    def block_end(self, f):
        k = f.kind
        if k in ("main", "word", "if"):
            self.frames.pop()
        elif k == "do":
            self.ev("do-body-completed")
            if f.step:
                self.res.steps += 1
                inc = self.pop_known("a +loop step")
            else:
                inc = 1
            f.i += inc
            if f.i >= f.stop:
                self.frames.pop()
            else:
                f.pc = 0
                self.res.steps += 1
                if self.res.steps > self.budget:
                    raise Budget()
        elif k == "again":
            f.pc = 0
            self.res.steps += 1
            if self.res.steps > self.budget:
                raise Budget()
        elif k == "until":
            # the body is one unit; the flag is tested after it
            self.frames.pop()
            flag = self.pop_known("until")
            self.tick()
            if flag == 0:
                self.enter(f.code, "until")
        elif k == "while":
            node = f.node
            self.frames.pop()
            self.tick()
            if f.phase == 0:
                flag = self.pop_known("while")
                if flag != 0:
                    g = self.enter(node[2], "while")
                    g.node, g.phase = node, 1
            else:
                g = self.enter(node[1], "while")
                g.node, g.phase = node, 0

    # -- one item
    def execute(self, op):
        kind = op[0]
        if kind == "lit":
            self.word("literal")
            self.push(op[1])
        elif kind == "op":
            self.word(op[1])
            self.plain(op[1])
        elif kind == "call":
            self.word("call")
            self.enter(self.prog.words[op[1]], "word", op[1])
        elif kind == "if":
            self.word("if-else" if op[2] is not None else "if")
            flag = self.pop_known("if")
            if flag != 0:
                self.enter(op[1], "if")
            elif op[2] is not None:
                self.enter(op[2], "if")
        elif kind == "do":
            self.word("+loop" if op[2] else "do")
            self.need(2)
            if self.stack[-1] is U or self.stack[-2] is U:
                raise Abstain("do-loop bounds depend on an undetermined value")
            start = self.stack.pop()
            stop = self.stack.pop()
            ndo = len(self.active_do())
            if self.depth_rule == "blocks" and ndo >= self.rmax:
                self.ambiguous_depth = True
                raise _Stop("recursion_depth_exceeded")
            if start < stop:
                f = self.enter(op[1], "do")
                f.i, f.stop, f.step = start, stop, op[2]
                self.res.max_do = max(self.res.max_do, ndo + 1)
            else:
                self.ev("do-zero-iterations")
        elif kind in ("again", "until"):
            self.word("begin-" + kind)
            self.enter(op[1], kind)
        elif kind == "while":
            self.word("begin-while-repeat")
            f = self.enter(op[1], "while")
            f.node, f.phase = op, 0
        elif kind == "exit":
            self.word("exit")
            self.ev("exit-executed")
            # leave the current word (or the program): its frames and the loops opened inside it disappear
            while self.frames:
                f = self.frames.pop()
                if f.kind == "do":
                    self.ev("exit-from-inside-own-do-loop")
                if f.kind in ("word", "main"):
                    break
            if any(g.kind == "do" for g in self.frames):
                self.ev("exit-inside-callers-do-loop")
        elif kind == "halt":
            self.word("halt")
            raise _Stop("user_halt")
        elif kind == "pause":
            self.word("pause")         # pausing and resuming does not change the final state
        elif kind == "var":
            self.word("variable " + op[1])
            if op[1] == "!":
                self.vars[op[2]] = self.pop()
            elif op[1] == "+!":
                v = self.pop()
                cur = self.vars[op[2]]
                self.vars[op[2]] = U if (v is U or cur is U) else _wrap(cur + v, self.bits)
            else:
                self.push(self.vars[op[2]])
        elif kind == "in":
            self.word("input " + op[1])
            self.input_op(op[1], op[2])
        elif kind == "read":
            self.read(op)
        elif kind == "out":
            self.word("output " + op[1])
            self.output_op(op[1], op[2])
        elif kind == "string":
            self.word("s\"")
            self.push(op[1])
        elif kind == "print-string":
            self.word(".\"")
        else:
            raise AssertionError(op)

    def plain(self, w):
        S = self.stack
        bits = self.bits
        if w == "dup":
            self.need(1)
            self.push(S[-1])
        elif w == "drop":
            self.pop()
        elif w == "swap":
            self.need(2)
            S[-1], S[-2] = S[-2], S[-1]
        elif w == "over":
            self.need(2)
            self.push(S[-2])
        elif w == "rot":
            self.need(3)
            S[-3], S[-2], S[-1] = S[-2], S[-1], S[-3]
        elif w == "nip":
            self.need(2)
            del S[-2]
        elif w == "tuck":
            self.need(2)
            self.room(1)
            S.insert(len(S) - 2, S[-1])
            self.res.max_stack = max(self.res.max_stack, len(S))
        elif w in ("+", "-", "*", "min", "max", "and", "or", "xor", "=", "<>", ">", ">=", "<", "<="):
            self.need(2)
            b = S.pop()
            a = S.pop()
            if a is U or b is U:
                S.append(U)
                return
            if w == "+":
                r = a + b
            elif w == "-":
                r = a - b
            elif w == "*":
                r = a * b
            elif w == "min":
                r = min(a, b)
            elif w == "max":
                r = max(a, b)
            elif w == "and":
                r = a & b
            elif w == "or":
                r = a | b
            elif w == "xor":
                r = a ^ b
            else:
                t = {"=": a == b, "<>": a != b, ">": a > b, ">=": a >= b, "<": a < b, "<=": a <= b}[w]
                r = -1 if t else 0
            S.append(_wrap(r, bits))
        elif w in ("/", "mod", "/mod"):
            self.need(2)
            b, a = S[-1], S[-2]
            if b is U:
                raise Abstain("division by an undetermined value")
            if b == 0:
                raise _Stop("division_by_zero")
            if a is U:
                if b == -1:
                    self.ev("min-int-divided-by-minus-one")       # possibly: the dividend is undetermined
                del S[-2:]
                S.append(U)
                if w == "/mod":
                    S.append(U)
                return
            if b == -1 and a == -(1 << (bits - 1)):
                self.ev("min-int-divided-by-minus-one")
            del S[-2:]
            q, r = a // b, a % b                 # floor division; the remainder takes the sign of the divisor
            if w != "/":
                rc = abs(a) % abs(b) * (1 if a >= 0 else -1)         # C's remainder
                if not -(1 << (bits - 1)) <= b + rc < (1 << (bits - 1)):
                    self.ev("modulo-of-large-divisor")               # divisor + remainder does not fit the type
            if w == "/":
                S.append(_wrap(q, bits))
            elif w == "mod":
                S.append(_wrap(r, bits))
            else:
                S.append(_wrap(r, bits))
                S.append(_wrap(q, bits))
        elif w in ("negate", "1+", "1-", "abs", "0=", "invert"):
            self.need(1)
            a = S.pop()
            if a is U:
                S.append(U)
                return
            if w == "negate":
                r = -a
            elif w == "1+":
                r = a + 1
            elif w == "1-":
                r = a - 1
            elif w == "abs":
                if bits == 64 and not -2 ** 31 <= a < 2 ** 31:
                    self.ev("abs-beyond-int32")
                r = abs(a)
            elif w == "0=":
                r = -1 if a == 0 else 0
            else:
                r = ~a
            S.append(_wrap(r, bits))
        elif w in ("lshift", "rshift"):
            self.need(2)
            n = S.pop()
            a = S.pop()
            if n is U or a is U or not 0 <= n < bits:
                # a shift count outside [0, width) is undefined in C and not mentioned in the documentation
                self.ev("undetermined-shift")
                S.append(U)
            else:
                S.append(_wrap(a << n, bits) if w == "lshift" else a >> n)  # rshift is arithmetic (test_0648)
        elif w == "false":
            self.push(0)
        elif w == "true":
            self.push(-1)
        elif w in ("i", "j", "k"):
            loops = self.active_do()
            idx = {"i": 1, "j": 2, "k": 3}[w]
            if len(loops) < idx:
                raise Abstain("loop index without that many active loops")
            v = loops[-idx].i
            if v is not U and not -2 ** 31 <= v < 2 ** 31:
                self.ev("loop-index-beyond-int32")
            self.push(v)
        elif w == ".":
            self.pop()
        elif w in ("cr", ".s"):
            pass
        else:
            raise AssertionError(w)

    def input_op(self, w, name):
        data = self.inp[name]
        if w == "len":
            self.push(len(data))
        elif w == "pos":
            self.push(self.pos[name])
        elif w == "end":
            self.push(-1 if self.pos[name] == len(data) else 0)
        elif w == "seek":
            to = self.pop_known("seek")
            if not 0 <= to <= len(data):
                raise _Stop("seek_beyond")
            self.pos[name] = to
        elif w == "skip":
            nxt = self.pos[name] + self.pop_known("skip")
            if not 0 <= nxt <= len(data):
                raise _Stop("skip_beyond")
            self.pos[name] = nxt

    def take(self, name, n):
        p = self.pos[name]
        if p + n > len(self.inp[name]):
            raise _Stop("read_beyond")
        self.pos[name] = p + n
        return self.inp[name][p:p + n]

    def to_stack_int(self, v):
        if v is not U and self.bits == 64 and not -2 ** 31 <= v < 2 ** 31:
            self.ev("read-to-stack-beyond-int32")
        self.push(v)

    def read(self, op):
        _, name, (rep, big, kind, nbits), dest, text = op
        self.word(("#" if rep else "") + ("!" if big else "") + (("Nbit" if kind == "nbit" else kind) + "->") +
                  (" output" if dest else " stack"))
        count = 1
        if rep:
            count = self.pop_known("a repeat count")
            if count < 0:
                raise Abstain("negative repeat count", ["negative-repeat-count:" + (
                    kind if kind in ("varint", "zigzag", "nbit") else "fixed")])
        odt = self.odt[dest] if dest else None
        if kind in ("varint", "zigzag"):
            for _ in range(count):
                value, shift, nbytes = 0, 0, 0
                while True:
                    byte = self.take(name, 1)[0]
                    nbytes += 1
                    if nbytes == 10:
                        # nine bytes carry 63 bits: a tenth byte means the value needs more than 63 bits, unless
                        # the encoding is padded with zero groups, which the documentation does not mention
                        rest_zero = (byte & 0x7f) == 0
                        if rest_zero:
                            raise Abstain("non-canonical ten-byte varint")
                        raise _Stop("varint_too_big")
                    value |= (byte & 0x7f) << shift
                    shift += 7
                    if not byte & 0x80:
                        break
                if kind == "zigzag":
                    value = (value >> 1) ^ -(value & 1)
                if dest is None:
                    self.push(value)
                else:
                    if kind == "zigzag" and self.bits == 32 and not -2 ** 31 <= value < 2 ** 31:
                        self.ev("zigzag-direct-beyond-int32")
                    self.out[dest] += cast_int(value, odt)
        elif kind == "nbit":
            if nbits >= 32:
                self.ev("nbit-32-or-more")
            nbytes = (count * nbits + 7) // 8
            remaining = len(self.inp[name]) - self.pos[name]
            if nbytes > remaining and dest is None and len(self.stack) + (remaining * 8) // nbits >= self.smax:
                # bytes may be fetched as they are needed: the stack can fill up before the input runs out
                raise _Stop("read_beyond", ["stack_overflow"])
            raw = self.take(name, nbytes)
            acc = 0
            for k, byte in enumerate(raw):
                acc |= (_BITREV[byte] if big else byte) << (8 * k)
            for k in range(count):
                v = (acc >> (k * nbits)) & ((1 << nbits) - 1)
                if dest is None:
                    self.push(v)
                else:
                    self.out[dest] += cast_int(v, odt)
        else:
            code, size, vkind = READS[kind]
            raw = self.take(name, count * size)
            for k in range(count):
                item = raw[k * size:(k + 1) * size]
                if big:
                    item = item[::-1]
                if vkind == "bool":
                    if item not in (b"\x00", b"\x01"):
                        # not a valid C++ bool: what is read is not determined
                        self.ev("bool-byte-not-0-or-1")
                        if dest is None:
                            self.push(U)
                        else:
                            self.out[dest] += self.unknown_out(dest)
                        continue
                    v = item[0]
                    if dest is None:
                        self.push(v)
                    else:
                        self.out[dest] += cast_int(v, odt)
                elif vkind == "int":
                    v = struct.unpack("<" + code, item)[0]
                    if dest is None:
                        self.to_stack_int(v)
                    else:
                        self.out[dest] += cast_int(v, odt)
                else:
                    if dest is not None and odt == READ_DTYPE[kind]:
                        if big and count == 1:
                            self.ev("big-endian-float-single-direct")
                        self.out[dest] += item                       # same type: the bits are copied
                        continue
                    if big and dest is not None and count == 1:
                        self.ev("big-endian-float-single-direct")
                    x = struct.unpack("<" + code, item)[0]
                    if dest is not None and x != x:
                        self.ev("nan-converted")
                        self.out[dest] += self.unknown_out(dest)
                        continue
                    if dest is None:
                        if x != x or x in (float("inf"), float("-inf")):
                            self.ev("float-does-not-fit")
                            self.push(U)
                            continue
                        t = int(x)
                        if not -(1 << (self.bits - 1)) <= t < (1 << (self.bits - 1)):
                            self.ev("float-does-not-fit")
                            self.push(U)
                            continue
                        if not -2 ** 31 <= t < 2 ** 31:
                            self.ev("read-to-stack-beyond-int32")
                        self.push(t)
                    else:
                        try:
                            self.out[dest] += cast_float(x, odt, ())
                        except Abstain:
                            self.ev("float-does-not-fit")
                            self.out[dest] += self.unknown_out(dest)

    def output_op(self, w, name):
        dt = self.odt[name]
        size = DTYPES[dt][1]
        buf = self.out[name]
        if w == "<-":
            v = self.pop()
            buf += self.unknown_out(name) if v is U else cast_int(v, dt)
        elif w == "+<-":
            v = self.pop()
            if v is U or name in self.res.unknown_outputs:
                buf += self.unknown_out(name)
                return
            prev = bytes(buf[-size:]) if len(buf) else None
            if dt in ("float32", "float64"):
                a = np.frombuffer(prev, dtype=NP[dt])[0] if prev else NP[dt](0)
                b = np.frombuffer(cast_int(v, dt), dtype=NP[dt])[0]
                with np.errstate(all="ignore"):
                    buf += NP[dt](a + b).tobytes()
            elif dt == "bool":
                a = 1 if (prev and prev != b"\x00") else 0
                buf += b"\x01" if (a or v != 0) else b"\x00"
            else:
                a = unpack_item(prev, dt) if prev else 0
                b = unpack_item(cast_int(v, dt), dt)
                buf += cast_int(a + b, dt)
        elif w == "len":
            self.push(len(buf) // size)
        elif w == "rewind":
            n = self.pop_known("rewind")
            if n < 0:
                raise Abstain("negative rewind", ["negative-rewind"])
            if len(buf) // size - n < 0:
                raise _Stop("rewind_beyond")
            if n:
                del buf[len(buf) - n * size:]
        elif w == "dup":
            n = self.pop_known("an output dup count")
            if n < 0:
                raise Abstain("negative count for output dup", ["negative-output-dup"])
            if len(buf) == 0:
                # nothing to duplicate: some error, the documentation does not say which one
                raise _Stop(ANY_ERROR)
            if n > 100000:
                raise Budget()
            buf += bytes(buf[-size:]) * n


def execute(prog, bits, inputs, stack_max_depth=1024, recursion_max_depth=1024, budget=20000):
    """-> Result (Result.alternatives lists further acceptable Results); Abstain / Budget propagate"""
    for n in prog.inputs:
        if n not in inputs:
            raise ValueError("missing input " + n)
    m = _Machine(prog, bits, inputs, stack_max_depth, recursion_max_depth, budget, "blocks")
    res = m.run()
    if "recursion_depth_exceeded" in res.errors and m.ambiguous_depth:
        # the documentation speaks of the nesting of words; whether the bodies of control structures (and the loop
        # stack) count against recursion_max_depth is not stated: both readings are acceptable
        m2 = _Machine(prog, bits, inputs, stack_max_depth, recursion_max_depth, budget, "words")
        res.alternatives = [m2.run()]
        res.events |= res.alternatives[0].events
        res.events.add("recursion-limit-reading-ambiguous")
    return res


def opinion(src, bits, inputs, **kw):
    """convenience: -> ("compile-error", msg) | ("abstain", reason) | ("budget",) | ("result", Result)"""
    try:
        prog = compile_source(src)
    except CompileError as e:
        return ("compile-error", str(e))
    except Abstain as a:
        return ("abstain", a.reason)
    try:
        return ("result", execute(prog, bits, inputs, **kw))
    except Abstain as a:
        return ("abstain", a.reason)
    except Budget:
        return ("budget",)


# ---------------------------------------------------------------------------------------------------- self-test

def _selftest():
    """cross-check on the `ForthMachine32("...") ; run() ; assert stack == [...]` programs of tests/test_0648*.py"""
    import os
    repo = os.environ.get("VERIF_REPO", "/repo")
    text = open(os.path.join(repo, "tests", "test_0648-add-forth-machine-to-codebase.py")).read()
    pat = re.compile(r'ForthMachine(32|64)\(\s*("""(?:.|\n)*?"""|"(?:[^"\\]|\\.)*")\s*\)\s*\n\s*vm\d*\.run\(\)\s*\n'
                     r'(?:\s*#[^\n]*\n)*\s*assert vm\d*\.stack == (\[[^\]]*\])')
    n = bad = 0
    for m in pat.finditer(text):
        bits, src, want = int(m.group(1)), eval(m.group(2)), eval(m.group(3))
        if "pause" in src:
            continue                     # those assert the state at the pause, not the final state
        got = opinion(src, bits, {})
        n += 1
        if got[0] != "result" or got[1].stack != want or got[1].errors != {"none"}:
            bad += 1
            print("MISMATCH", repr(src), want, got[0], got[1].stack if got[0] == "result" else got[1:])
    print("forthref selftest: %d upstream programs, %d mismatches" % (n, bad))
    return bad


if __name__ == "__main__":
    import sys
    sys.exit(1 if _selftest() else 0)
