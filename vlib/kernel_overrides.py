"""Per-kernel overrides for C13, each with the reason it exists.

Nothing in this file loosens a monitor silently: `summary()` is copied into
evidence/C13.json under coverage.overrides on every run.

Sections
  INOUT                 arguments that are both read and written
  DEFINITION_PATCHES    YAML definitions repaired (guarded by the faulty text)
  HARNESS_DEFINITIONS   references written by the harness for kernels whose YAML has none
  EXTENT / NO_COMPARE   scratch outputs
  PREDICATES            oracles for outputs that are not unique (unstable sorts)
  KNOWN_DEFECTS         genuine disagreements on the unchanged tree (reported, not hidden)
"""
import itertools
import os

# --------------------------------------------------------------------------
# Arguments the YAML declares `dir: in` but the kernel (and its definition)
# writes, or `dir: out` arguments that are read before being written: they are
# in/out.  The argument model supplies the initial contents; the definition's
# reads see them; the compiled kernel's buffer is initialised with them and
# every element the definition did not write must still hold its initial value.
INOUT = {
    "awkward_regularize_arrayslice": {
        "flatheadptr": "declared `in`, but `flatheadptr[i] += length` normalises negative indexes in place "
                       "(src/cpu-kernels/awkward_regularize_arrayslice.cpp; caller Slice.cpp passes a mutable Index64)",
    },
    "awkward_NumpyArray_reduce_adjust_starts_64": {
        "toptr": "in/out: holds argmin/argmax positions on entry, `toptr[k] += -start` (Reducer apply())",
    },
    "awkward_NumpyArray_reduce_adjust_starts_shifts_64": {
        "toptr": "in/out: holds argmin/argmax positions on entry, `toptr[k] += shifts[i] - start`",
    },
    "awkward_Index_nones_as_index": {
        "toindex": "in/out: -1 entries are replaced by fresh indexes, the others are read and kept",
    },
    "awkward_UnionArray_nestedfill_tags_index": {
        "tmpstarts": "in/out: per-list write cursor, read as start and advanced to stop",
    },
    "awkward_NumpyArray_rearrange_shifted": {
        "toptr": "in/out: holds per-list local argsort positions on entry (NumpyArray::argsort_next), adjusted in place",
    },
    "awkward_unique": {
        "toptr": "in/out: sorted values on entry, compacted in place (NumpyArray::unique)",
    },
    "awkward_NumpyArray_unique_strings": {
        "toptr": "in/out: sorted string bytes on entry, compacted in place",
    },
    "awkward_quick_sort": {
        "tmpptr": "declared `in`, sorted in place",
        "tmpbeg": "declared `in`; explicit quicksort stack of `maxlevels` entries, written by the kernel",
        "tmpend": "declared `in`; explicit quicksort stack of `maxlevels` entries, written by the kernel",
    },
    "awkward_quick_argsort": {
        "tmpbeg": "declared `in`; explicit quicksort stack of `maxlevels` entries, written by the kernel",
        "tmpend": "declared `in`; explicit quicksort stack of `maxlevels` entries, written by the kernel",
    },
    "awkward_ListArray_combinations": {
        "fromindex": "declared `in`; scratch of n cursors written by awkward_ListArray_combinations_step_64",
    },
    "awkward_RegularArray_combinations_64": {
        "fromindex": "declared `in`; scratch of n cursors written by awkward_ListArray_combinations_step_64",
    },
    "awkward_ListOffsetArray_reduce_nonlocal_preparenext_64": {
        "offsetscopy": "declared `in`; per-list cursor initialised to offsets[:-1] and advanced (`offsetscopy[i]++`)",
    },
}

# --------------------------------------------------------------------------
# YAML definitions that cannot be executed as written, or that demonstrably
# transcribe the C++ wrongly.  Each patch is a list of (old text, new text)
# replacements applied to the YAML source; if an `old text` is no longer in the
# YAML the whole patch is dropped (so a corrected YAML is used as is).
# These are *disagreements between the repository's definition and its kernel*
# on the unchanged tree; in each case the C++ caller shows the kernel is the
# intended behaviour and the Python text is the sloppy side.
DEFINITION_PATCHES = {
    "awkward_IndexedArray_ranges_next_64": {
        "replace": [("if index[fromstarts[i] + j] > 0:", "if not (index[fromstarts[i] + j] < 0):")],
        "reason": "YAML tests `index > 0`, the kernel tests `!(index < 0)`: a missing value is a negative index and "
                  "index 0 is a valid element (IndexedArray.cpp:2942, the only caller, allocates from the kernel's "
                  "count); the definition drops every element whose index is 0",
    },
    "awkward_IndexedArray_ranges_carry_next_64": {
        "replace": [("if index[fromstarts[i] + j] > 0:", "if not (index[fromstarts[i] + j] < 0):")],
        "reason": "same `> 0` vs `!(< 0)` slip as awkward_IndexedArray_ranges_next_64",
    },
    "awkward_ListArray_getitem_jagged_numvalid": {
        "replace": [("numvalid[0] = numvalid[0] + 1 if missing[j] >= 0 else 0",
                     "numvalid[0] = numvalid[0] + (1 if missing[j] >= 0 else 0)")],
        "reason": "Python operator precedence: the YAML line parses as `(numvalid+1) if ... else 0` and resets the count "
                  "at every missing value; the C++ is `*numvalid = *numvalid + (missing[j] >= 0 ? 1 : 0)`",
    },
    "awkward_missing_repeat": {
        "replace": [("outindex[(i * indexlength) + j] = base + i * regularsize if base >= 0 else 0",
                     "outindex[(i * indexlength) + j] = base + (i * regularsize if base >= 0 else 0)")],
        "reason": "Python operator precedence: the YAML writes 0 for a missing value, the C++ "
                  "`base + (base >= 0 ? i*regularsize : 0)` keeps the negative index (it must stay missing)",
    },
    "awkward_NumpyArray_rearrange_shifted": {
        "replace": [("def awkward_NumpyArray_rearrange_shifted(toptr, fromshifts, length, fromoffsets, offsetslength, "
                     "fromparents, parentslength):",
                     "def awkward_NumpyArray_rearrange_shifted(toptr, fromshifts, length, fromoffsets, offsetslength, "
                     "fromparents, parentslength, fromstarts, startslength):"),
                    ("for j in rage(", "for j in range(")],
        "reason": "the YAML text is not executable: `rage` for `range`, and the parameters fromstarts/startslength "
                  "that the body and the C signature use are missing from the def line",
    },
}

# Full replacement (the YAML text cannot be patched line-wise).
DEFINITION_OVERRIDES = {
    "awkward_slicearray_ravel": {
        "only_if_yaml_contains": "toptr[i * shape[1]],",
        "source": '''
def awkward_slicearray_ravel(toptr, fromptr, ndim, shape, strides):
    def rec(tooff, fromoff, nd, d):
        if nd == 1:
            for i in range(shape[d]):
                toptr[tooff + i] = fromptr[fromoff + i * strides[d]]
        else:
            for i in range(shape[d]):
                rec(tooff + i * shape[d + 1], fromoff + i * strides[d], nd - 1, d + 1)
    rec(0, 0, ndim, 0)
''',
        "reason": "the YAML recursion passes list *elements* where the C++ passes pointers into the arrays "
                  "(&toptr[i*shape[1]], &fromptr[i*strides[0]], &shape[1], &strides[1]) and tests `err.str != nullptr`; "
                  "rewritten with explicit offsets, same arithmetic",
    },
}

# --------------------------------------------------------------------------
# Kernels whose YAML says "Insert Python definition here".  The first sentence
# of the property is vacuous for them; the references below are written by the
# harness from the documented intent (itertools for combinations, sorted() for
# the sorts, complex arithmetic for the complex reducers) or, where there is no
# intent beyond the code, as a transliteration of the C++ (marked T).  They
# drive the extent monitor and act as a predicate oracle.
_H = {}

_H["awkward_IndexedArray_local_preparenext_64"] = ("T", '''
def awkward_IndexedArray_local_preparenext_64(tocarry, starts, parents, parentslength, nextparents, nextlen):
    j = 0
    for i in range(parentslength):
        parent = parents[i]
        start = starts[parent]
        if j < nextlen and parent == nextparents[j]:
            tocarry[i] = j
            j = j + 1
        else:
            tocarry[i] = -1
''')

_H["awkward_ListOffsetArray_local_preparenext_64"] = ("argsort of fromindex (std::sort, ties in any order: PREDICATES)", '''
def awkward_ListOffsetArray_local_preparenext_64(tocarry, fromindex, length):
    vals = [fromindex[i] for i in range(length)]
    order = sorted(range(length), key=lambda i: vals[i])
    for i in range(length):
        tocarry[i] = order[i]
''')

_H["awkward_ListOffsetArray_reduce_nonlocal_preparenext_64"] = ("T", '''
def awkward_ListOffsetArray_reduce_nonlocal_preparenext_64(nextcarry, nextparents, nextlen, maxnextparents, distincts,
                                                           distinctslen, offsetscopy, offsets, length, parents, maxcount):
    maxnextparents[0] = 0
    for i in range(distinctslen):
        distincts[i] = -1
    k = 0
    while k < nextlen:
        j = 0
        for i in range(length):
            if offsetscopy[i] < offsets[i + 1]:
                diff = offsetscopy[i] - offsets[i]
                parent = parents[i]
                nextcarry[k] = offsetscopy[i]
                nextparents[k] = parent * maxcount + diff
                if maxnextparents[0] < nextparents[k]:
                    maxnextparents[0] = nextparents[k]
                if distincts[nextparents[k]] == -1:
                    distincts[nextparents[k]] = j
                    j = j + 1
                k = k + 1
                offsetscopy[i] = offsetscopy[i] + 1
''')

_H["awkward_NumpyArray_copy"] = ("memcpy of len bytes", '''
def awkward_NumpyArray_copy(toptr, fromptr, len):
    for i in range(len):
        toptr[i] = fromptr[i]
''')

_H["awkward_NumpyArray_contiguous_copy"] = ("len items of stride bytes gathered from byte positions pos[i]", '''
def awkward_NumpyArray_contiguous_copy(toptr, fromptr, len, stride, pos):
    for i in range(len):
        for b in range(stride):
            toptr[i * stride + b] = fromptr[pos[i] + b]
''')

_H["awkward_NumpyArray_contiguous_copy_from_many"] = ("T", '''
def awkward_NumpyArray_contiguous_copy_from_many(toptr, fromptrs, fromlens, len, stride, pos):
    k = 0
    j = 0
    for i in range(len):
        src = fromptrs[k]
        p = pos[j]
        j = j + 1
        for b in range(stride):
            toptr[i * stride + b] = src[p + b]
        if j >= fromlens[k]:
            k = k + 1
            j = 0
''')

_H["awkward_NumpyArray_fill_tocomplex"] = ("complex element tooffset+i = (converted value, 0); tooffset counts complex "
                                           "elements like in every other fill kernel (NumpyArray::mergemany passes the "
                                           "number of elements already filled)", '''
def awkward_NumpyArray_fill_tocomplex(toptr, tooffset, fromptr, length):
    for i in range(length):
        toptr[2 * (tooffset + i)] = fromptr[i]
        toptr[2 * (tooffset + i) + 1] = 0
''')

_H["awkward_NumpyArray_getitem_next_null"] = ("len items of stride bytes gathered from item positions pos[i]", '''
def awkward_NumpyArray_getitem_next_null(toptr, fromptr, len, stride, pos):
    for i in range(len):
        for b in range(stride):
            toptr[i * stride + b] = fromptr[pos[i] * stride + b]
''')

_COMB = '''
def %(name)s(%(sig)s):
    if n < 1:
        raise __Undefined("n < 1 is refused by every caller (Content::combinations); the kernel recurses without bound")
    for j in range(n):
        toindex[j] = 0
    for j in range(n):
        fromindex[j] = fromindex[j]       # scratch: n cursors, contents unspecified
    for i in range(length):
        %(startstop)s
        if stop - start > 64:
            raise __Undefined("list too long for the reference (itertools materialises the pool)")
        if replacement:
            combos = __itertools.combinations_with_replacement(range(start, stop), n)
        else:
            combos = __itertools.combinations(range(start, stop), n)
        if n > 0:
            for c in combos:
                for k in range(n):
                    tocarry[k][toindex[k]] = c[k]
                    toindex[k] = toindex[k] + 1
'''
_H["awkward_ListArray_combinations"] = ("itertools.combinations[_with_replacement] of each list's positions", _COMB % dict(
    name="awkward_ListArray_combinations", sig="tocarry, toindex, fromindex, n, replacement, starts, stops, length",
    startstop="start = starts[i]; stop = stops[i]"))
_H["awkward_RegularArray_combinations_64"] = ("itertools.combinations[_with_replacement] of each list's positions", _COMB % dict(
    name="awkward_RegularArray_combinations_64", sig="tocarry, toindex, fromindex, n, replacement, size, length",
    startstop="start = size * i; stop = start + size"))

_SORTKEY = ''

_H["awkward_sort"] = ("per range: sorted(), NaN first, ascending or descending", _SORTKEY + '''
def awkward_sort(toptr, fromptr, length, offsets, offsetslength, parentslength, ascending, stable):
    vals = [fromptr[i] for i in range(length)]
    index = list(range(length))
    for i in range(offsetslength - 1):
        a, b = offsets[i], offsets[i + 1]
        if a < 0 or b > length or b < a:
            raise __OutOfBounds("range outside the data")
        index[a:b] = sorted(index[a:b], key=__nanfirst(vals, ascending))
    for i in range(parentslength):
        toptr[i] = vals[index[i]]
''')

_H["awkward_argsort"] = ("per range: stable argsort, NaN first; local positions (ties free when not stable: PREDICATES)",
                         _SORTKEY + '''
def awkward_argsort(toptr, fromptr, length, offsets, offsetslength, ascending, stable):
    vals = [fromptr[i] for i in range(length)]
    index = list(range(length))
    for i in range(offsetslength - 1):
        a, b = offsets[i], offsets[i + 1]
        if a < 0 or b > length or b < a:
            raise __OutOfBounds("range outside the data")
        index[a:b] = [j - a for j in sorted(index[a:b], key=__nanfirst(vals, ascending))]
    for i in range(length):
        toptr[i] = index[i]
''')

_H["awkward_quick_argsort"] = ("per range: argsort, local positions, ties free (PREDICATES); no NaN", _SORTKEY + '''
def awkward_quick_argsort(toptr, fromptr, length, tmpbeg, tmpend, offsets, offsetslength, ascending, stable, maxlevels):
    for i in range(offsetslength - 1):
        a, b = offsets[i], offsets[i + 1]
        vals = [fromptr[j] for j in range(a, b)]
        order = sorted(range(b - a), key=__nanfirst(vals, ascending))
        for j in range(b - a):
            toptr[a + j] = order[j]
''')

_H["awkward_quick_sort"] = ("per range: sorted in place; no NaN", _SORTKEY + '''
def awkward_quick_sort(tmpptr, tmpbeg, tmpend, fromstarts, fromstops, ascending, length, maxlevels):
    for i in range(length):
        a, b = fromstarts[i], fromstops[i]
        vals = [tmpptr[j] for j in range(a, b)]
        order = sorted(range(b - a), key=__nanfirst(vals, ascending))
        for j in range(b - a):
            tmpptr[a + j] = vals[order[j]]
''')

_H["awkward_unique"] = ("consecutive duplicates removed in place; tolength = number kept (1 when length == 0: the "
                        "kernel's `j + 1` with j = 0, callers never pass length 0)", '''
def awkward_unique(toptr, length, tolength):
    kept = []
    for i in range(length):
        v = toptr[i]
        if not kept or kept[-1] != v:
            kept.append(v)
    for j in range(1, len(kept)):
        toptr[j] = kept[j]
    tolength[0] = len(kept) if length > 0 else 1
''')

_H["awkward_sorting_ranges_length"] = ("2 + number of places where consecutive parents differ", '''
def awkward_sorting_ranges_length(tolength, parents, parentslength):
    n = 2
    for i in range(1, parentslength):
        if parents[i - 1] != parents[i]:
            n = n + 1
    tolength[0] = n
''')

_H["awkward_sorting_ranges"] = ("T", '''
def awkward_sorting_ranges(toindex, tolength, parents, parentslength):
    j = 0
    k = 0
    toindex[0] = k
    k = k + 1
    j = j + 1
    for i in range(1, parentslength):
        if parents[i - 1] != parents[i]:
            toindex[j] = k
            j = j + 1
        k = k + 1
    toindex[tolength - 1] = parentslength
''')

_H["awkward_NumpyArray_subrange_equal"] = ("T", '''
def awkward_NumpyArray_subrange_equal(tmpptr, fromstarts, fromstops, length, toequal):
    differ = True
    for i in range(length - 1):
        leftlen = fromstops[i] - fromstarts[i]
        for ii in range(i + 1, length - 1):
            rightlen = fromstops[ii] - fromstarts[ii]
            if leftlen == rightlen:
                differ = False
                for j in range(leftlen):
                    if tmpptr[fromstarts[i] + j] != tmpptr[fromstarts[ii] + j]:
                        differ = True
                        break
    toequal[0] = not differ
''')

_H["awkward_NumpyArray_sort_asstrings_uint8"] = ("the byte strings delimited by offsets, sorted; new offsets", '''
def awkward_NumpyArray_sort_asstrings_uint8(toptr, fromptr, offsets, offsetslength, outoffsets, ascending, stable):
    words = []
    for k in range(offsetslength - 1):
        words.append(tuple(fromptr[j] for j in range(offsets[k], offsets[k + 1])))
    words = sorted(words, reverse=not ascending)
    k = 0
    for w in words:
        for c in w:
            toptr[k] = c
            k = k + 1
    outoffsets[0] = 0
    for o in range(len(words)):
        outoffsets[o + 1] = outoffsets[o] + len(words[o])
''')

_H["awkward_NumpyArray_unique_strings"] = ("T", '''
def awkward_NumpyArray_unique_strings(toptr, offsets, offsetslength, outoffsets, tolength):
    slen = 0
    index = 0
    counter = 0
    start = 0
    for i in range(offsetslength - 1):
        differ = False
        if offsets[i + 1] - offsets[i] != slen:
            differ = True
        else:
            k = 0
            for j in range(offsets[i], offsets[i + 1]):
                if toptr[start + k] != toptr[j]:
                    differ = True
                k = k + 1
        if differ:
            for j in range(offsets[i], offsets[i + 1]):
                toptr[index] = toptr[j]
                index = index + 1
                start = offsets[i]
            counter = counter + 1
        slen = offsets[i + 1] - offsets[i]
    tolength[0] = counter + 1
''')

_H["awkward_ListOffsetArray_argsort_strings"] = ("per run of equal parents: argsort of the strings (bytewise, shorter "
                                                 "first on a common prefix); model supplies distinct strings", '''
def awkward_ListOffsetArray_argsort_strings(tocarry, fromparents, length, stringdata, stringstarts, stringstops,
                                            is_stable, is_ascending, is_local):
    words = []
    for i in range(length):
        words.append(tuple(stringdata[j] for j in range(stringstarts[i], stringstops[i])))
    i = 0
    while i < length:
        j = i
        while j < length and fromparents[j] == fromparents[i]:
            j = j + 1
        order = sorted(range(i, j), key=lambda q: words[q], reverse=not is_ascending)
        for q in range(j - i):
            tocarry[i + q] = order[q] - i if is_local else order[q]
        i = j
''')

# ---- complex reducers: elements are (re, im) pairs interleaved
_CX = '''
def %(name)s(toptr, fromptr, parents, lenparents, outlength%(extra)s):
%(body)s
'''


def _cx(name, body, extra=""):
    return _CX % dict(name=name, body=body, extra=extra)


_H["awkward_reduce_sum_complex"] = ("componentwise sum", _cx("awkward_reduce_sum_complex", '''
    for i in range(outlength):
        toptr[2 * i] = 0
        toptr[2 * i + 1] = 0
    for i in range(lenparents):
        p = parents[i]
        toptr[2 * p] = toptr[2 * p] + fromptr[2 * i]
        toptr[2 * p + 1] = toptr[2 * p + 1] + fromptr[2 * i + 1]
'''))

_H["awkward_reduce_prod_complex"] = ("complex product, each partial product rounded to the element type; finite inputs", _cx(
    "awkward_reduce_prod_complex", '''
    for i in range(outlength):
        toptr[2 * i] = 1
        toptr[2 * i + 1] = 0
    for i in range(lenparents):
        p = parents[i]
        a, b = toptr[2 * p], toptr[2 * p + 1]
        c, d = fromptr[2 * i], fromptr[2 * i + 1]
        re = __rt(toptr, __rt(toptr, a * c) - __rt(toptr, b * d))
        im = __rt(toptr, __rt(toptr, a * d) + __rt(toptr, b * c))
        if re != re or im != im or abs(re) == __inf or abs(im) == __inf:
            raise __Undefined("non-finite complex product (libgcc __mulsc3 recovery rules not modelled)")
        toptr[2 * p] = re
        toptr[2 * p + 1] = im
'''))

_H["awkward_reduce_max_complex"] = ("lexicographic maximum of (re, im), starting from (identity, 0)", _cx(
    "awkward_reduce_max_complex", '''
    for i in range(outlength):
        toptr[2 * i] = identity
        toptr[2 * i + 1] = 0
    for i in range(lenparents):
        p = parents[i]
        x, y = fromptr[2 * i], fromptr[2 * i + 1]
        if x > toptr[2 * p] or (x == toptr[2 * p] and y > toptr[2 * p + 1]):
            toptr[2 * p] = x
            toptr[2 * p + 1] = y
''', ", identity"))

_H["awkward_reduce_min_complex"] = ("lexicographic minimum of (re, im), starting from (identity, 0)", _cx(
    "awkward_reduce_min_complex", '''
    for i in range(outlength):
        toptr[2 * i] = identity
        toptr[2 * i + 1] = 0
    for i in range(lenparents):
        p = parents[i]
        x, y = fromptr[2 * i], fromptr[2 * i + 1]
        if x < toptr[2 * p] or (x == toptr[2 * p] and y < toptr[2 * p + 1]):
            toptr[2 * p] = x
            toptr[2 * p + 1] = y
''', ", identity"))

_H["awkward_reduce_argmax_complex"] = ("position of the first lexicographic maximum of (re, im) per parent, -1 if none", _cx(
    "awkward_reduce_argmax_complex", '''
    for k in range(outlength):
        toptr[k] = -1
    for i in range(lenparents):
        p = parents[i]
        q = toptr[p]
        if q == -1 or fromptr[2 * i] > fromptr[2 * q] or (fromptr[2 * i] == fromptr[2 * q]
                                                          and fromptr[2 * i + 1] > fromptr[2 * q + 1]):
            toptr[p] = i
'''))

_H["awkward_reduce_argmin_complex"] = ("position of the first lexicographic minimum of (re, im) per parent, -1 if none", _cx(
    "awkward_reduce_argmin_complex", '''
    for k in range(outlength):
        toptr[k] = -1
    for i in range(lenparents):
        p = parents[i]
        q = toptr[p]
        if q == -1 or fromptr[2 * i] < fromptr[2 * q] or (fromptr[2 * i] == fromptr[2 * q]
                                                          and fromptr[2 * i + 1] < fromptr[2 * q + 1]):
            toptr[p] = i
'''))

_H["awkward_reduce_countnonzero_complex"] = ("count of elements with re != 0 or im != 0", _cx(
    "awkward_reduce_countnonzero_complex", '''
    for i in range(outlength):
        toptr[i] = 0
    for i in range(lenparents):
        toptr[parents[i]] += (fromptr[2 * i] != 0) or (fromptr[2 * i + 1] != 0)
'''))

_H["awkward_reduce_prod_bool_complex"] = ("all(z != 0)", _cx("awkward_reduce_prod_bool_complex", '''
    for i in range(outlength):
        toptr[i] = True
    for i in range(lenparents):
        toptr[parents[i]] &= (fromptr[2 * i] != 0) or (fromptr[2 * i + 1] != 0)
'''))

_H["awkward_reduce_sum_bool_complex"] = ("any(z != 0)", _cx("awkward_reduce_sum_bool_complex", '''
    for i in range(outlength):
        toptr[i] = False
    for i in range(lenparents):
        toptr[parents[i]] |= (fromptr[2 * i] != 0) or (fromptr[2 * i + 1] != 0)
'''))

HARNESS_DEFINITIONS = dict((k, {"source": src, "reason": why}) for k, (why, src) in _H.items())

# --------------------------------------------------------------------------
# Outputs whose extent is larger than what the reference writes (scratch).
#   {kernel: {arg: {"extent": f(args, ref) -> elements, "reason": str}}}
_STACK = {"extent": lambda args, ref: int(args["maxlevels"]),
          "reason": "explicit quicksort stack: the caller (NumpyArray.cpp) allocates kMaxLevels = 48 entries and passes "
                    "maxlevels = 48; contents are scratch"}
EXTENT = {
    "awkward_quick_sort": {"tmpbeg": _STACK, "tmpend": _STACK},
    "awkward_quick_argsort": {"tmpbeg": _STACK, "tmpend": _STACK},
}

# Outputs that are not compared element-wise.
_SCRATCH = {"all": True, "reason": "scratch space, contents unspecified"}
_PRED = {"all": True, "reason": "order of equal keys is unspecified (std::sort / quicksort): checked by PREDICATES instead"}
NO_COMPARE = {
    "awkward_quick_sort": {"tmpbeg": _SCRATCH, "tmpend": _SCRATCH},
    "awkward_quick_argsort": {"tmpbeg": _SCRATCH, "tmpend": _SCRATCH, "toptr": _PRED},
    "awkward_ListArray_combinations": {"fromindex": _SCRATCH},
    "awkward_RegularArray_combinations_64": {"fromindex": _SCRATCH},
    "awkward_argsort": {"toptr": _PRED},
    "awkward_ListOffsetArray_local_preparenext_64": {"tocarry": _PRED},
}

# Kernels whose sibling specialisations are not compared output-by-output.
NO_CROSS = {
    "awkward_argsort": "positions of equal keys may differ between runs of an unstable sort; PREDICATES check each run",
    "awkward_quick_argsort": "positions of equal keys may differ; PREDICATES check each run",
}

DECLARED_EXTENTS = {}


# --------------------------------------------------------------------------
# Predicate oracles: f(sp, args, got) -> list of problems (dicts).  `got` maps
# output names to the lists read back from the kernel's buffers.

def _argsort_ranges(vals, ranges, got, local_base, ascending, nanfirst=True):
    probs = []
    for (a, b) in ranges:
        seg = got[a:b]
        want = list(range(b - a))
        pos = [x - (0 if local_base else a) for x in seg]
        if sorted(pos) != want:
            probs.append({"range": [a, b], "problem": "not a permutation of the range's positions", "kernel": seg[:12]})
            continue
        keys = [vals[a + p] for p in pos]
        for x, y in zip(keys, keys[1:]):
            xn, yn = x != x, y != y
            if xn:
                continue
            if yn:
                bad = True
            elif ascending:
                bad = y < x
            else:
                bad = y > x
            if bad:
                probs.append({"range": [a, b], "problem": "keys not in order", "keys": keys[:12]})
                break
    return probs


def _pred_argsort(sp, args, got):
    off = args["offsets"]
    ranges = [(off[i], off[i + 1]) for i in range(len(off) - 1)][:max(0, args["offsetslength"] - 1)]
    return _argsort_ranges(args["fromptr"], ranges, got["toptr"], True, args["ascending"])


def _pred_local_preparenext(sp, args, got):
    n = args["length"]
    return _argsort_ranges(args["fromindex"], [(0, n)], got["tocarry"], True, True)


PREDICATES = {
    "awkward_argsort": _pred_argsort,
    "awkward_quick_argsort": _pred_argsort,
    "awkward_ListOffsetArray_local_preparenext_64": _pred_local_preparenext,
}


# --------------------------------------------------------------------------
# Genuine disagreements found on the unchanged tree.  They are NOT hidden: each
# is reported to the maintainer of this harness with a witness, listed in the
# evidence, counted under coverage.maps["known-defect-reobserved"], and
# VERIF_C13_STRICT=1 turns every one of them back into a VIOLATION.
#   match(spec_name, kind, detail) -> bool   which violations are this defect
#   avoid(spec_name, args) -> bool           tuples on which the kernel must not even be called
#                                            (the defect is a memory error that would kill the worker)
def _overlay_u32(spec_name, kind, detail, args):
    if spec_name != "awkward_IndexedArrayU32_overlay_mask8_to64" or kind not in ("output-mismatch", "cross-specialisation"):
        return False
    if kind == "cross-specialisation":
        return all(4294967295 in [v for v in d.values() if isinstance(v, int)] for d in detail.get("first", []))
    return all(d["kernel"] == 4294967295 and d["definition"] == -1 for d in detail.get("first", []))


def _argminmax_complex_avoid(spec_name, args):
    # the first element of a parent takes the `toptr[parent] == -1` short cut; any later element of the same parent
    # evaluates fromptr[toptr[parent*2]] (toptr beyond outlength, or a slot still holding -1 => fromptr[-1])
    p = args["parents"]
    return len(set(p)) != len(p)


def _has_equal_strings_in_a_group(args):
    seen = set()
    for p, a, b in zip(args["fromparents"], args["stringstarts"], args["stringstops"]):
        key = (p, tuple(args["stringdata"][a:b]))
        if key in seen:
            return True
        seen.add(key)
    return False


def _src_has(relpath, text):
    def present(repo):
        try:
            return text in open(os.path.join(repo, relpath)).read()
        except IOError:
            return False
    return present


# `present(repo)`: the entry is active only while the faulty text is still in the working tree's source, so a fix
# in the repository retires the entry (and its `avoid`) by itself.
# All five defects recorded here were repaired in /repo by "fix:" commits (see /verif/known_findings.json: F13, F27,
# F43, F44, F39).  A fixed entry suppresses nothing, so the active table is empty; the former entries are kept
# below for the record only.
_KNOWN_DEFECTS = {}

_REPAIRED_DEFECTS_FOR_THE_RECORD = {
    "awkward_IndexedArray_overlay_mask": {
        "present": _src_has("src/cpu-kernels/awkward_IndexedArray_overlay_mask.cpp", "toindex[i] = (m ? -1 : fromindex[i]);"),
        "mechanism": "C13-overlay-mask-U32-minus-one",
        "description": "awkward_IndexedArrayU32_overlay_mask8_to64 stores 4294967295 instead of -1 for a masked element: "
                       "`toindex[i] = (m ? -1 : fromindex[i])` converts -1 to uint32_t (usual arithmetic conversions) "
                       "before widening to int64_t; IndexedArrayOf<uint32_t>::project(mask) then sees an out-of-range index",
        "match": _overlay_u32,
        "sibling_of": "awkward_IndexedArrayU32_overlay_mask8_to64",
    },
    "awkward_reduce_argmax_complex": {
        "present": _src_has("src/cpu-kernels/awkward_reduce_argmax_complex.cpp", "fromptr[toptr[parent * 2]]"),
        "mechanism": "C13-argminmax-complex-index",
        "description": "awkward_reduce_arg{max,min}_complex index `fromptr[toptr[parent * 2]]` / `fromptr[toptr[parent * 2 + 1]]` "
                       "where `fromptr[toptr[parent] * 2]` / `[... * 2 + 1]` is meant: reads toptr beyond outlength "
                       "(heap-buffer-overflow under ASan) and compares against unrelated elements",
        "match": lambda spec_name, kind, detail, args: kind in ("output-mismatch", "cross-specialisation"),
        "avoid": _argminmax_complex_avoid,
    },
    "awkward_NumpyArray_fill_tocomplex": {
        "present": _src_has("src/cpu-kernels/awkward_NumpyArray_fill_tocomplex.cpp", "toptr[tooffset + 2 * i] = (TO)fromptr[i];"),
        "mechanism": "C13-fill-tocomplex-offset-units",
        "description": "awkward_NumpyArray_fill_tocomplex (1.4.0) writes toptr[tooffset + 2*i]: tooffset is taken in float "
                       "slots although the caller passes complex elements, so with tooffset > 0 the values land in the "
                       "middle of the elements filled before (fixed in the working tree as toptr[2*(tooffset + i)])",
        "match": lambda spec_name, kind, detail, args: args.get("tooffset", 0) > 0 and kind in (
            "output-mismatch", "unwritten-output-touched", "cross-specialisation"),
    },
    "awkward_NumpyArray_sort_asstrings_uint8": {
        "present": _src_has("src/cpu-kernels/awkward_NumpyArray_sort_asstrings_uint8.cpp",
                            "for (uint8_t i = (uint8_t)start;"),
        "mechanism": "C13-sort-asstrings-uint8-cursor",
        "description": "awkward_NumpyArray_sort_asstrings_uint8 walks the characters with `uint8_t i = (uint8_t)start`: "
                       "a string that starts at or runs past byte 256 of the buffer is read from position start mod 256 "
                       "(witness: offsets=[256,258], bytes 256..257 = 'ab', bytes 0..1 = 'zz' -> output 'zz')",
        "match": lambda spec_name, kind, detail, args: kind == "output-mismatch" and max(args["offsets"] or [0]) > 255,
    },
    "awkward_ListOffsetArray_argsort_strings": {
        "present": _src_has("src/cpu-kernels/awkward_ListOffsetArray_argsort_strings.cpp", "return !out;"),
        "mechanism": "C13-argsort-strings-descending-comparator",
        "description": "awkward_ListOffsetArray_argsort_strings, is_ascending=false: the comparator returns `!out`, which is "
                       "true for two equal strings - not a strict weak ordering.  std::sort then walks off the vector: 17 "
                       "equal strings in one group, is_stable=false -> SIGSEGV in __unguarded_partition (and std::stable_sort "
                       "reverses equal strings).  Tuples with equal strings in a group are not run while descending",
        "match": lambda spec_name, kind, detail, args: False,
        "avoid": lambda spec_name, args: (not args["is_ascending"]) and _has_equal_strings_in_a_group(args),
    },
    "awkward_reduce_argmin_complex": {
        "present": _src_has("src/cpu-kernels/awkward_reduce_argmin_complex.cpp", "fromptr[toptr[parent * 2]]"),
        "mechanism": "C13-argminmax-complex-index",
        "description": "see awkward_reduce_argmax_complex",
        "match": lambda spec_name, kind, detail, args: kind in ("output-mismatch", "cross-specialisation"),
        "avoid": _argminmax_complex_avoid,
    },
}


def _nanfirst(vals, ascending):
    """The sort kernels' comparator as a sort key: NaN before everything in both directions, else < or >."""
    import functools

    def cmp(a, b):
        x, y = vals[a], vals[b]
        xn, yn = x != x, y != y
        if xn or yn:
            return 0 if (xn and yn) else (-1 if xn else 1)
        if x == y:
            return 0
        if ascending:
            return -1 if x < y else 1
        return -1 if x > y else 1
    return functools.cmp_to_key(cmp)


class _Active(dict):
    """KNOWN_DEFECTS restricted to the entries whose faulty source text is present in the tree under test."""
    _loaded = False

    def _load(self):
        if not self._loaded:
            self._loaded = True
            import vbuild
            repo = vbuild.repo_dir()
            for k, d in _KNOWN_DEFECTS.items():
                if d["present"](repo):
                    dict.__setitem__(self, k, d)

    def get(self, k, default=None):
        self._load()
        return dict.get(self, k, default)

    def items(self):
        self._load()
        return dict.items(self)


KNOWN_DEFECTS = _Active()


def strict():
    return os.environ.get("VERIF_C13_STRICT", "") not in ("", "0")


def extra_globals():
    """Names available to harness-written references only."""
    from vlib import kernelspec as ks

    def rt(outlist, v):
        return ks.cast(outlist.t, v)

    return {"__itertools": itertools, "__rt": rt, "__inf": float("inf"), "__Undefined": ks.SpecUndefinedCast,
            "__nanfirst": _nanfirst, "__OutOfBounds": ks.SpecOutOfBounds}


def summary():
    out = []
    for k, d in sorted(INOUT.items()):
        for a, why in sorted(d.items()):
            out.append({"kernel": k, "argument": a, "kind": "in/out argument", "reason": why})
    for k, d in sorted(DEFINITION_PATCHES.items()):
        out.append({"kernel": k, "kind": "YAML definition patched (definition and kernel disagree / text not executable)",
                    "patch": [list(r) for r in d["replace"]], "reason": d["reason"]})
    for k, d in sorted(DEFINITION_OVERRIDES.items()):
        out.append({"kernel": k, "kind": "YAML definition replaced", "reason": d["reason"]})
    for k, d in sorted(HARNESS_DEFINITIONS.items()):
        out.append({"kernel": k, "kind": "harness-written reference (YAML has no definition)", "basis": d["reason"]})
    for k, d in sorted(EXTENT.items()):
        for a, e in sorted(d.items()):
            out.append({"kernel": k, "argument": a, "kind": "extent larger than the reference writes",
                        "reason": e["reason"]})
    for k, d in sorted(NO_COMPARE.items()):
        for a, e in sorted(d.items()):
            out.append({"kernel": k, "argument": a, "kind": "output not compared element-wise", "reason": e["reason"]})
    for k, why in sorted(NO_CROSS.items()):
        out.append({"kernel": k, "kind": "no cross-specialisation output comparison", "reason": why})
    active = dict(KNOWN_DEFECTS.items())
    for k, d in sorted(_KNOWN_DEFECTS.items()):
        out.append({"kernel": k, "kind": "KNOWN DEFECT of the 1.4.0 snapshot (suppressed unless VERIF_C13_STRICT=1)",
                    "mechanism": d["mechanism"], "description": d["description"],
                    "tuples_avoided": "avoid" in d,
                    "active_in_this_tree": k in active})
    return out
