"""ctypes front end of bridge/akbridge_forth.cpp: ForthMachine32 / ForthMachine64 through the C ABI bridge.

    m = bridge_forth.ForthMachine(ctx.lib, 64, "input x  x i-> stack", stack_max_depth=16)
    err = m.run({"x": b"\\x01\\x00\\x00\\x00"})      # -> "none" | "stack_underflow" | ...   (AkError if the library threw)
    m.stack, m.variables, m.outputs, m.input_position("x")

run/step/resume/call return the *name* of the util::ForthError the library returned; a C++ exception (compile error,
missing input, unknown word) raises vlib.bridge.AkError(kind, message).  A signal or sanitizer abort is not caught.
"""
import ctypes
from ctypes import c_void_p, c_char_p, c_int, c_int64, c_double, POINTER, byref

ERRORS = ["none", "not_ready", "is_done", "user_halt", "recursion_depth_exceeded", "stack_underflow",
          "stack_overflow", "read_beyond", "seek_beyond", "skip_beyond", "rewind_beyond", "division_by_zero",
          "varint_too_big"]
ERRCODE = dict((n, i) for i, n in enumerate(ERRORS))

ITEMSIZE = {"bool": 1, "int8": 1, "int16": 2, "int32": 4, "int64": 8, "uint8": 1, "uint16": 2, "uint32": 4,
            "uint64": 8, "float32": 4, "float64": 8}

_DECLARED = set()


def declare(L):
    if id(L) in _DECLARED:
        return
    vp, cp, i, i64 = c_void_p, c_char_p, c_int, c_int64
    S = {
        "akb_forth_new": (vp, [i, cp, i64, i64, i64, i64, c_double]), "akb_forth_free": (None, [vp]),
        "akb_forth_bits": (i, [vp]),
        "akb_forth_clear_inputs": (i, [vp]), "akb_forth_set_input": (i, [vp, cp, cp, i64]),
        "akb_forth_input_bytes": (i64, [vp, cp, vp, i64]), "akb_forth_input_position": (i64, [vp, cp]),
        "akb_forth_input_must_be_writable": (i, [vp, cp]),
        "akb_forth_begin": (i, [vp]), "akb_forth_begin_noinputs": (i, [vp]), "akb_forth_run": (i, [vp]),
        "akb_forth_run_noinputs": (i, [vp]), "akb_forth_step": (i, [vp]), "akb_forth_resume": (i, [vp]),
        "akb_forth_call": (i, [vp, cp]), "akb_forth_call_index": (i, [vp, i64]), "akb_forth_reset": (i, [vp]),
        "akb_forth_maybe_throw": (i, [vp, i, i64]),
        "akb_forth_is_ready": (i, [vp]), "akb_forth_is_done": (i, [vp]), "akb_forth_is_segment_done": (i, [vp]),
        "akb_forth_current_bytecode_position": (i64, [vp]), "akb_forth_current_recursion_depth": (i64, [vp]),
        "akb_forth_current_instruction": (vp, [vp]),
        "akb_forth_stack_depth": (i64, [vp]), "akb_forth_stack": (i64, [vp, POINTER(i64), i64]),
        "akb_forth_stack_can_push": (i, [vp]), "akb_forth_stack_can_pop": (i, [vp]),
        "akb_forth_stack_push": (i, [vp, i64]), "akb_forth_stack_pop": (i, [vp, POINTER(i64)]),
        "akb_forth_stack_clear": (i, [vp]),
        "akb_forth_variable_names": (vp, [vp]), "akb_forth_variable_at": (i, [vp, cp, POINTER(i64)]),
        "akb_forth_variable_at_index": (i, [vp, i64, POINTER(i64)]), "akb_forth_variables": (vp, [vp]),
        "akb_forth_output_names": (vp, [vp]), "akb_forth_outputs_present": (vp, [vp]),
        "akb_forth_output_info": (i64, [vp, cp, cp, POINTER(i64)]), "akb_forth_output_bytes": (i64, [vp, cp, vp, i64]),
        "akb_forth_output_index_length": (i64, [vp, cp, i]),
        "akb_forth_source": (vp, [vp]), "akb_forth_decompiled": (vp, [vp]), "akb_forth_dictionary": (vp, [vp]),
        "akb_forth_input_names": (vp, [vp]), "akb_forth_bytecodes": (vp, [vp]), "akb_forth_string_at": (vp, [vp, i64]),
        "akb_forth_is_word": (i, [vp, cp, i]),
        "akb_forth_config": (i64, [vp, i, POINTER(c_double)]), "akb_forth_count": (i64, [vp, i]),
        "akb_forth_count_reset": (i, [vp]),
    }
    for name, (res, args) in S.items():
        f = getattr(L, name)
        f.restype = res
        f.argtypes = args
    _DECLARED.add(id(L))


def _enc(s):
    return s.encode("utf-8", "surrogateescape") if isinstance(s, str) else s


class ForthMachine(object):
    """One ForthMachine32 (bits=32) or ForthMachine64 (bits=64).  Raises AkError when the source does not compile."""

    def __init__(self, b, bits, source, stack_max_depth=1024, recursion_max_depth=1024, output_initial_size=1024,
                 output_resize_factor=1.5):
        from vlib.bridge import Handle
        self.b = b
        self.L = b.L
        declare(self.L)
        self.bits = bits
        raw = _enc(source)
        p = self.L.akb_forth_new(bits, raw, len(raw), stack_max_depth, recursion_max_depth, output_initial_size,
                                 float(output_resize_factor))
        if not p:
            b._raise()
        self.h = Handle(b, p, self.L.akb_forth_free)
        self._inputs = {}

    # ---- plumbing
    def _rc(self, rc, bad=-1):
        if rc == bad:
            self.b._raise()
        return rc

    def _s(self, p):
        return self.b._s(p)

    def _list(self, p):
        s = self._s(p)
        return s.split("\x1f") if s else []

    def _err(self, rc):
        if rc < 0:
            self.b._raise()
        return ERRORS[rc] if rc < len(ERRORS) else "unknown(%d)" % rc

    # ---- inputs
    def set_inputs(self, inputs):
        """inputs: dict name -> bytes (staged; every begin()/run() gives the machine fresh copies)"""
        self._rc(self.L.akb_forth_clear_inputs(self.h.p))
        self._inputs = {}
        for name in inputs:
            data = bytes(inputs[name])
            self._rc(self.L.akb_forth_set_input(self.h.p, _enc(name), data, len(data)))
            self._inputs[name] = data

    def input_position(self, name):
        rc = self.L.akb_forth_input_position(self.h.p, _enc(name))
        if rc == -1 and self.L.akb_error_kind() != 0:
            self.b._raise()
        return rc

    def input_must_be_writable(self, name):
        return bool(self._rc(self.L.akb_forth_input_must_be_writable(self.h.p, _enc(name))))

    def input_bytes(self, name):
        """current content of the buffer the machine holds for this input"""
        n = len(self._inputs.get(name, b""))
        buf = ctypes.create_string_buffer(max(1, n))
        got = self.L.akb_forth_input_bytes(self.h.p, _enc(name), buf, n)
        if got < 0:
            self.b._raise()
        return buf.raw[:min(n, got)]

    # ---- execution
    def begin(self, inputs=None):
        if inputs is not None:
            self.set_inputs(inputs)
        self._rc(self.L.akb_forth_begin(self.h.p))

    def begin_noinputs(self):
        self._rc(self.L.akb_forth_begin_noinputs(self.h.p))

    def run(self, inputs=None):
        if inputs is not None:
            self.set_inputs(inputs)
        return self._err(self.L.akb_forth_run(self.h.p))

    def run_noinputs(self):
        return self._err(self.L.akb_forth_run_noinputs(self.h.p))

    def step(self):
        return self._err(self.L.akb_forth_step(self.h.p))

    def resume(self):
        return self._err(self.L.akb_forth_resume(self.h.p))

    def call(self, word):
        if isinstance(word, int):
            return self._err(self.L.akb_forth_call_index(self.h.p, word))
        return self._err(self.L.akb_forth_call(self.h.p, _enc(word)))

    def reset(self):
        self._rc(self.L.akb_forth_reset(self.h.p))

    def maybe_throw(self, err, ignore=()):
        """True when maybe_throw(err, ignore) raised; the AkError is returned as second item"""
        from vlib.bridge import AkError
        mask = 0
        for e in ignore:
            mask |= 1 << ERRCODE[e]
        rc = self.L.akb_forth_maybe_throw(self.h.p, ERRCODE[err], mask)
        if rc == 0:
            return None
        try:
            self.b._raise()
        except AkError as e:
            return e

    # ---- state
    @property
    def is_ready(self):
        return bool(self._rc(self.L.akb_forth_is_ready(self.h.p)))

    @property
    def is_done(self):
        return bool(self._rc(self.L.akb_forth_is_done(self.h.p)))

    @property
    def is_segment_done(self):
        """only defined while the machine is inside a segment (callers check `not is_done` first)"""
        return bool(self._rc(self.L.akb_forth_is_segment_done(self.h.p)))

    @property
    def current_bytecode_position(self):
        return self._rc(self.L.akb_forth_current_bytecode_position(self.h.p), -2)

    @property
    def current_recursion_depth(self):
        return self._rc(self.L.akb_forth_current_recursion_depth(self.h.p), -2)

    @property
    def current_instruction(self):
        return self._s(self.L.akb_forth_current_instruction(self.h.p))

    @property
    def stack_depth(self):
        return self._rc(self.L.akb_forth_stack_depth(self.h.p))

    @property
    def stack(self):
        n = self.stack_depth
        arr = (c_int64 * max(1, n))()
        got = self._rc(self.L.akb_forth_stack(self.h.p, arr, n))
        return [arr[k] for k in range(min(n, got))]

    def stack_push(self, v):
        self._rc(self.L.akb_forth_stack_push(self.h.p, v))

    def stack_pop(self):
        out = c_int64()
        self._rc(self.L.akb_forth_stack_pop(self.h.p, byref(out)))
        return out.value

    def stack_clear(self):
        self._rc(self.L.akb_forth_stack_clear(self.h.p))

    @property
    def stack_can_push(self):
        return bool(self._rc(self.L.akb_forth_stack_can_push(self.h.p)))

    @property
    def stack_can_pop(self):
        return bool(self._rc(self.L.akb_forth_stack_can_pop(self.h.p)))

    @property
    def variable_names(self):
        return self._list(self.L.akb_forth_variable_names(self.h.p))

    def variable_at(self, name):
        out = c_int64()
        if isinstance(name, int):
            self._rc(self.L.akb_forth_variable_at_index(self.h.p, name, byref(out)))
        else:
            self._rc(self.L.akb_forth_variable_at(self.h.p, _enc(name), byref(out)))
        return out.value

    @property
    def variables(self):
        """the variables() map as a dict"""
        out = {}
        for item in self._list(self.L.akb_forth_variables(self.h.p)):
            k, v = item.split("\x1e")
            out[k] = int(v)
        return out

    # ---- outputs
    @property
    def output_names(self):
        return self._list(self.L.akb_forth_output_names(self.h.p))

    @property
    def outputs_present(self):
        return self._list(self.L.akb_forth_outputs_present(self.h.p))

    def output(self, name):
        """-> (dtype name, length in items, raw bytes)"""
        dt = ctypes.create_string_buffer(16)
        isz = c_int64()
        n = self.L.akb_forth_output_info(self.h.p, _enc(name), dt, byref(isz))
        if n < 0:
            self.b._raise()
        total = n * isz.value
        buf = ctypes.create_string_buffer(max(1, total))
        got = self.L.akb_forth_output_bytes(self.h.p, _enc(name), buf, total)
        if got < 0:
            self.b._raise()
        return dt.value.decode(), n, buf.raw[:total]

    @property
    def outputs(self):
        return dict((n, self.output(n)) for n in self.outputs_present)

    def output_index_length(self, name, kind):
        """length of the typed Index view (kind: i8 u8 i32 u32 i64); AkError when the dtype does not match"""
        k = {"i8": 0, "u8": 1, "i32": 2, "u32": 3, "i64": 4}[kind]
        n = self.L.akb_forth_output_index_length(self.h.p, _enc(name), k)
        if n < 0:
            self.b._raise()
        return n

    # ---- program text
    @property
    def source(self):
        return self._s(self.L.akb_forth_source(self.h.p))

    @property
    def decompiled(self):
        return self._s(self.L.akb_forth_decompiled(self.h.p))

    @property
    def dictionary(self):
        return self._list(self.L.akb_forth_dictionary(self.h.p))

    @property
    def input_names(self):
        return self._list(self.L.akb_forth_input_names(self.h.p))

    @property
    def bytecodes(self):
        import json
        return json.loads(self._s(self.L.akb_forth_bytecodes(self.h.p)))

    def string_at(self, i):
        return self._s(self.L.akb_forth_string_at(self.h.p, i))

    def is_word(self, word, what):
        k = {"variable": 0, "input": 1, "output": 2, "defined": 3, "reserved": 4}[what]
        return bool(self._rc(self.L.akb_forth_is_word(self.h.p, _enc(word), k)))

    # ---- configuration / counters
    @property
    def config(self):
        r = c_double()
        return {"stack_max_depth": self.L.akb_forth_config(self.h.p, 0, byref(r)),
                "recursion_max_depth": self.L.akb_forth_config(self.h.p, 1, byref(r)),
                "output_initial_size": self.L.akb_forth_config(self.h.p, 2, byref(r)),
                "output_resize_factor": r.value}

    @property
    def counts(self):
        return {"instructions": self.L.akb_forth_count(self.h.p, 0), "reads": self.L.akb_forth_count(self.h.p, 1),
                "writes": self.L.akb_forth_count(self.h.p, 2), "nanoseconds": self.L.akb_forth_count(self.h.p, 3)}

    def count_reset(self):
        self._rc(self.L.akb_forth_count_reset(self.h.p))

    def state(self, inputs=()):
        """the observable state as a JSON-able dict"""
        outs = {}
        for n in self.outputs_present:
            dt, ln, raw = self.output(n)
            outs[n] = [dt, ln, raw.hex()]
        pos = {}
        for n in inputs:
            pos[n] = self.input_position(n)
        return {"stack": self.stack, "variables": [[n, self.variable_at(n)] for n in self.variable_names],
                "outputs": outs, "positions": pos, "is_ready": self.is_ready, "is_done": self.is_done}
