"""Reference model of awkward-1.0 layouts, independent of the library.

Works on *descriptors* (plain dicts, the format produced by akb_describe and by
vlib.gen).  A transcription of the documented meaning of each node class
(docs-sphinx/ak.layout.*.rst "simplified implementation in pure Python"),
extended with index windows, strides, bit order/polarity and parameters.

    length(d)      number of entries
    value(d)       nested Python value (list / dict / tuple / None / str / bytes / numbers)
    validity(d)    None, or a short string naming the first documented rule that is broken
    typestr(d)     datashape string as the library prints it
"""
from __future__ import print_function

import json
import math

import numpy as np

OPTION_LIKE = ("IndexedArray", "IndexedOptionArray", "ByteMaskedArray", "BitMaskedArray", "UnmaskedArray")
OPTION = ("IndexedOptionArray", "ByteMaskedArray", "BitMaskedArray", "UnmaskedArray")
LIST = ("ListArray", "ListOffsetArray", "RegularArray")


class Invalid(Exception):
    pass


# ------------------------------------------------------------------ NumpyArray helpers

def np_dtype(d):
    dt = d["dtype"]
    if dt in ("datetime64", "timedelta64"):
        return np.dtype(d["format"])
    return np.dtype(dt)


def np_view(d):
    """numpy view with the descriptor's shape/strides over the descriptor's bytes."""
    buf = bytearray(bytes.fromhex(d["hex"]))
    dt = np_dtype(d)
    shape = tuple(d["shape"])
    if any(s == 0 for s in shape) or len(buf) == 0:
        return np.zeros(shape, dtype=dt)
    return np.ndarray(shape=shape, dtype=dt, buffer=buf, offset=-d["lo"], strides=tuple(d["strides"]))


def np_desc(arr, params=None):
    """descriptor of a NumPy array exactly as it lies in memory (arr may be a strided view).

    embed: optional base array that owns the memory (so that the descriptor carries the whole
    span between the lowest and highest byte the view touches)."""
    arr = np.asarray(arr)
    dt = arr.dtype
    if dt.kind in "Mm":
        name = "datetime64" if dt.kind == "M" else "timedelta64"
        fmt = dt.str.lstrip("<>=|")
    else:
        name = dt.name
        fmt = {"bool": "?", "int8": "b", "int16": "h", "int32": "i", "int64": "l", "uint8": "B", "uint16": "H",
               "uint32": "I", "uint64": "L", "float32": "f", "float64": "d", "complex64": "Zf",
               "complex128": "Zd"}[name]
    shape = list(arr.shape)
    strides = list(arr.strides)
    lo, hi = 0, dt.itemsize
    empty = False
    for n, s in zip(shape, strides):
        if n == 0:
            empty = True
        else:
            span = (n - 1) * s
            if span < 0:
                lo += span
            else:
                hi += span
    if empty:
        lo, hi, raw = 0, 0, b""
    else:
        import ctypes
        raw = ctypes.string_at(arr.__array_interface__["data"][0] + lo, hi - lo)
    return {"c": "NumpyArray", "dtype": name, "format": fmt, "itemsize": dt.itemsize, "shape": shape,
            "strides": strides, "lo": lo, "hex": raw.hex(), "scalar": False,
            "params": dict(params or {})}


def scalar_value(x, dt):
    if dt.kind == "b":
        return bool(x)
    if dt.kind in "iu":
        return int(x)
    if dt.kind == "f":
        return float(x)
    if dt.kind == "c":
        return complex(x)
    if dt.kind in "Mm":
        return "%s:%d" % (dt.str.lstrip("<>=|"), int(np.asarray(x).astype(np.int64)))
    return x


def _np_tolist(arr):
    dt = arr.dtype
    if dt.kind in "Mm":
        ints = arr.astype(np.int64)
        pre = dt.str.lstrip("<>=|")

        def conv(x):
            if isinstance(x, list):
                return [conv(y) for y in x]
            return "%s:%d" % (pre, x)
        return conv(ints.tolist())
    return arr.tolist()


# ------------------------------------------------------------------ basic accessors

def param(d, key):
    p = d.get("params") or {}
    if key in p:
        try:
            return json.loads(p[key])
        except ValueError:
            return p[key]
    return None


def idx(d):
    return d["v"]


def length(d):
    c = d["c"]
    if c == "NumpyArray":
        return d["shape"][0] if d["shape"] else 0
    if c == "EmptyArray":
        return 0
    if c == "RegularArray":
        if d["size"] == 0:
            return d.get("length", 0)
        return length(d["content"]) // d["size"]
    if c == "ListOffsetArray":
        return len(idx(d["offsets"])) - 1
    if c == "ListArray":
        return len(idx(d["starts"]))
    if c in ("IndexedArray", "IndexedOptionArray"):
        return len(idx(d["index"]))
    if c == "ByteMaskedArray":
        return len(idx(d["mask"]))
    if c == "BitMaskedArray":
        return d["length"]
    if c == "UnmaskedArray":
        return length(d["content"])
    if c == "RecordArray":
        return d["length"]
    if c == "UnionArray":
        return len(idx(d["tags"]))
    if c == "Record":
        return -1
    if c == "None":
        return -1
    raise ValueError(c)


def bits(d):
    """valid flags of a BitMaskedArray (True = valid)"""
    out = []
    m = idx(d["mask"])
    for i in range(d["length"]):
        byte = m[i // 8] & 0xFF
        bit = (byte >> (i % 8)) & 1 if d["lsb_order"] else (byte >> (7 - i % 8)) & 1
        out.append(bool(bit) == bool(d["valid_when"]))
    return out


# ------------------------------------------------------------------ validity

def validity(d, path="layout"):
    """first broken documented rule, or None.  Mirrors the *documented* rules, written independently."""
    c = d["c"]
    p = _param_rule(d, path)
    if p:
        return p
    arr = param(d, "__array__")
    if c == "NumpyArray":
        if len(d["shape"]) == 0:
            return path + ": zero-dimensional"
        if any(s < 0 for s in d["shape"]):
            return path + ": negative shape"
        if any(s % d["itemsize"] != 0 for s in d["strides"]):
            return path + ": stride not a multiple of itemsize"
        return None
    if c == "EmptyArray":
        return None
    if c == "RegularArray":
        if d["size"] < 0:
            return path + ": size < 0"
        if arr in ("string", "bytestring"):
            return None
        return validity(d["content"], path + ".content")
    if c in ("ListOffsetArray", "ListArray"):
        if c == "ListOffsetArray":
            o = idx(d["offsets"])
            if len(o) < 1:
                return path + ": len(offsets) < 1"
            starts, stops = o[:-1], o[1:]
        else:
            starts, stops = idx(d["starts"]), idx(d["stops"])
            if len(stops) < len(starts):
                return path + ": len(stops) < len(starts)"
        n = length(d["content"])
        for i in range(len(starts)):
            a, b = starts[i], stops[i]
            if a != b:
                if a > b:
                    return path + ": start > stop at %d" % i
                if a < 0:
                    return path + ": start < 0 at %d" % i
                if b > n:
                    return path + ": stop > len(content) at %d" % i
        if arr in ("string", "bytestring"):
            return None
        return validity(d["content"], path + ".content")
    if c in ("IndexedArray", "IndexedOptionArray"):
        n = length(d["content"])
        for i, x in enumerate(idx(d["index"])):
            if x < 0 and c == "IndexedArray":
                return path + ": index < 0 at %d" % i
            if x >= n:
                return path + ": index >= len(content) at %d" % i
        if d["content"]["c"] in OPTION_LIKE:
            return path + ": option/indexed directly inside option/indexed"
        return validity(d["content"], path + ".content")
    if c == "ByteMaskedArray":
        if length(d["content"]) < len(idx(d["mask"])):
            return path + ": len(content) < len(mask)"
        if d["content"]["c"] in OPTION_LIKE:
            return path + ": option/indexed directly inside option"
        return validity(d["content"], path + ".content")
    if c == "BitMaskedArray":
        if len(idx(d["mask"])) * 8 < d["length"]:
            return path + ": len(mask)*8 < length"
        if length(d["content"]) < d["length"]:
            return path + ": len(content) < length"
        if d["content"]["c"] in OPTION_LIKE:
            return path + ": option/indexed directly inside option"
        return validity(d["content"], path + ".content")
    if c == "UnmaskedArray":
        if d["content"]["c"] in OPTION_LIKE:
            return path + ": option/indexed directly inside option"
        return validity(d["content"], path + ".content")
    if c == "RecordArray":
        for i, x in enumerate(d["contents"]):
            if length(x) < d["length"]:
                return path + ": len(field %d) < length" % i
        for i, x in enumerate(d["contents"]):
            s = validity(x, path + ".field(%d)" % i)
            if s:
                return s
        return None
    if c == "UnionArray":
        for x in d["contents"]:
            if x["c"] == "UnionArray":
                return path + ": union directly inside union"
        tags, index = idx(d["tags"]), idx(d["index"])
        if len(index) < len(tags):
            return path + ": len(index) < len(tags)"
        lens = [length(x) for x in d["contents"]]
        for i in range(len(tags)):
            t, j = tags[i], index[i]
            if t < 0 or t >= len(lens):
                return path + ": tag out of range at %d" % i
            if j < 0 or j >= lens[t]:
                return path + ": index out of range at %d" % i
        for i, x in enumerate(d["contents"]):
            s = validity(x, path + ".content(%d)" % i)
            if s:
                return s
        return None
    if c == "Record":
        return validity(d["array"], path)
    if c == "None":
        return None
    raise ValueError(c)


def _param_rule(d, path):
    arr = param(d, "__array__")
    c = d["c"]
    if arr in ("string", "bytestring"):
        inner = "char" if arr == "string" else "byte"
        if c not in LIST:
            return path + ": __array__=%s on a non-list node" % arr
        ct = d["content"]
        if param(ct, "__array__") != inner:
            return path + ": %s must directly contain %s" % (arr, inner)
        if ct["c"] != "NumpyArray":
            return path + ": %s only allowed for NumpyArray" % inner
        if ct["dtype"] != "uint8":
            return path + ": %s requires uint8" % inner
        if len(ct["shape"]) != 1:
            return path + ": %s must be one-dimensional" % inner
        return None
    if arr in ("char", "byte"):
        return path + ": %s outside a string" % arr
    if arr == "categorical":
        if c not in ("IndexedArray", "IndexedOptionArray"):
            return path + ": categorical on a non-indexed node"
        # uniqueness of the categories is a value-level rule; evaluated only when the content is valid
        ct = d["content"]
        if validity(ct, path + ".content") is None:
            try:
                vals = value(ct)
                seen = []
                for v in vals:
                    key = _freeze(v)
                    if key in seen:
                        return path + ": categorical contents not unique"
                    seen.append(key)
            except Invalid:
                pass
    return None


def _freeze(v):
    if isinstance(v, list):
        return ("L",) + tuple(_freeze(x) for x in v)
    if isinstance(v, dict):
        return ("D",) + tuple((k, _freeze(x)) for k, x in v.items())
    if isinstance(v, tuple):
        return ("T",) + tuple(_freeze(x) for x in v)
    if isinstance(v, float) and v != v:
        return ("nan",)
    return (type(v).__name__ if isinstance(v, bool) else "n", v)


# ------------------------------------------------------------------ value

def value(d, _raw=False):
    c = d["c"]
    if c == "NumpyArray":
        a = np_view(d)
        if d.get("scalar") or len(d["shape"]) == 0:
            return scalar_value(a[()] if a.shape == () else a.reshape(-1)[0], a.dtype)
        if not _raw and len(d["shape"]) == 1 and d["dtype"] == "uint8":
            # a bare character array is one string taken out of a string list (the library's char/byte behaviour)
            mark = param(d, "__array__")
            if mark == "char":
                return bytes(bytearray(a.tolist())).decode("utf-8", "surrogateescape")
            if mark == "byte":
                return bytes(bytearray(a.tolist()))
        return _np_tolist(a)
    if c == "EmptyArray":
        return []
    if c == "None":
        return None
    arr = param(d, "__array__")
    if c == "RegularArray":
        cv = value(d["content"], _raw=arr in ("string", "bytestring"))
        n, size = length(d), d["size"]
        out = [cv[i * size:(i + 1) * size] for i in range(n)]
        return _stringify(out, arr)
    if c == "ListOffsetArray":
        cv = value(d["content"], _raw=arr in ("string", "bytestring"))
        o = idx(d["offsets"])
        out = [cv[o[i]:o[i + 1]] if o[i] != o[i + 1] else [] for i in range(len(o) - 1)]
        return _stringify(out, arr)
    if c == "ListArray":
        cv = value(d["content"], _raw=arr in ("string", "bytestring"))
        a, b = idx(d["starts"]), idx(d["stops"])
        out = [cv[a[i]:b[i]] if a[i] != b[i] else [] for i in range(len(a))]
        return _stringify(out, arr)
    if c == "IndexedArray":
        cv = value(d["content"])
        return [cv[i] for i in idx(d["index"])]
    if c == "IndexedOptionArray":
        cv = value(d["content"])
        return [None if i < 0 else cv[i] for i in idx(d["index"])]
    if c == "ByteMaskedArray":
        cv = value(d["content"])
        vw = bool(d["valid_when"])
        return [cv[i] if (m != 0) == vw else None for i, m in enumerate(idx(d["mask"]))]
    if c == "BitMaskedArray":
        cv = value(d["content"])
        return [cv[i] if ok else None for i, ok in enumerate(bits(d))]
    if c == "UnmaskedArray":
        return list(value(d["content"]))
    if c == "RecordArray":
        cols = [value(x) for x in d["contents"]]
        n = d["length"]
        if d["keys"] is None:
            return [tuple(col[i] for col in cols) for i in range(n)]
        return [dict((k, col[i]) for k, col in zip(d["keys"], cols)) for i in range(n)]
    if c == "Record":
        return value(d["array"])[d["at"]]
    if c == "UnionArray":
        cvs = [value(x) for x in d["contents"]]
        return [cvs[t][j] for t, j in zip(idx(d["tags"]), idx(d["index"]))]
    raise ValueError(c)


def _stringify(lists, arr):
    if arr == "string":
        return [bytes(bytearray(x)).decode("utf-8", "surrogateescape") for x in lists]
    if arr == "bytestring":
        return [bytes(bytearray(x)) for x in lists]
    return lists


# ------------------------------------------------------------------ comparing values

def same(a, b, rel=0.0):
    """structural equality of model values: NaN == NaN, -0.0 == 0.0, list vs list, dict vs dict ..."""
    if isinstance(a, list) or isinstance(b, list):
        return isinstance(a, list) and isinstance(b, list) and len(a) == len(b) and \
            all(same(x, y, rel) for x, y in zip(a, b))
    if isinstance(a, tuple) or isinstance(b, tuple):
        return isinstance(a, tuple) and isinstance(b, tuple) and len(a) == len(b) and \
            all(same(x, y, rel) for x, y in zip(a, b))
    if isinstance(a, dict) or isinstance(b, dict):
        return isinstance(a, dict) and isinstance(b, dict) and list(a.keys()) == list(b.keys()) and \
            all(same(a[k], b[k], rel) for k in a)
    if a is None or b is None:
        return a is None and b is None
    if isinstance(a, (str, bytes)) or isinstance(b, (str, bytes)):
        if type(a) == type(b) and a == b:
            return True
        ta, tb = _timeval(a), _timeval(b)
        return ta is not None and ta == tb
    if isinstance(a, complex) or isinstance(b, complex):
        a, b = complex(a), complex(b)
        return same(a.real, b.real, rel) and same(a.imag, b.imag, rel)
    if isinstance(a, float) or isinstance(b, float):
        a, b = float(a), float(b)
        if a != a or b != b:
            return a != a and b != b
        if a == b:
            return True
        if rel and math.isfinite(a) and math.isfinite(b):
            return math.isclose(a, b, rel_tol=rel, abs_tol=1e-300)
        return False
    return a == b


_UNITS = {"Y": None, "M": None, "W": 7 * 86400 * 10 ** 9, "D": 86400 * 10 ** 9, "h": 3600 * 10 ** 9, "m": 60 * 10 ** 9,
          "s": 10 ** 9, "ms": 10 ** 6, "us": 10 ** 3, "ns": 1}


def _timeval(x):
    """('M'|'m', nanoseconds) of a model datetime/timedelta value 'M8[s]:12', else None"""
    if not isinstance(x, str) or len(x) < 6 or x[0] not in "Mm" or x[1:3] != "8[":
        return None
    try:
        unit, n = x[3:].split("]:")
        scale = _UNITS.get(unit)
        if scale is None:
            return None
        return (x[0], int(n) * scale)
    except ValueError:
        return None


def brief(v, limit=300):
    s = repr(v)
    return s if len(s) <= limit else s[:limit] + "..."


# ------------------------------------------------------------------ structure queries

def classes(d, out=None):
    """multiset of node classes (with widths) in a descriptor"""
    out = {} if out is None else out
    name = d["c"] + d.get("w", "")
    out[name] = out.get(name, 0) + 1
    for k in ("content", "array"):
        if k in d and isinstance(d[k], dict):
            classes(d[k], out)
    for x in d.get("contents", []):
        classes(x, out)
    return out


def walk(d, path=()):
    yield path, d
    if "content" in d and isinstance(d["content"], dict):
        for x in walk(d["content"], path + ("content",)):
            yield x
    for i, x in enumerate(d.get("contents", [])):
        for y in walk(x, path + (("contents", i),)):
            yield y


def get_at(d, path):
    for p in path:
        d = d[p] if isinstance(p, str) else d[p[0]][p[1]]
    return d


def replace_at(d, path, new):
    """copy of d with the node at path replaced"""
    if not path:
        return new
    p = path[0]
    out = dict(d)
    if isinstance(p, str):
        out[p] = replace_at(d[p], path[1:], new)
    else:
        lst = list(d[p[0]])
        lst[p[1]] = replace_at(lst[p[1]], path[1:], new)
        out[p[0]] = lst
    return out


# ------------------------------------------------------------------ types (as the library prints Content::type)

DATASHAPE_KEYWORDS = ("var", "option", "union", "struct", "tuple", "categorical", "unknown", "string", "bytes", "char",
                      "byte", "bool", "int8", "int16", "int32", "int64", "uint8", "uint16", "uint32", "uint64",
                      "float16", "float32", "float64", "float128", "complex64", "complex128", "complex256",
                      "datetime64", "timedelta64", "parameters", "type")


def typeof(d):
    """structured type: (kind, ..., params) following the Form::type rules of each node class"""
    c = d["c"]
    p = dict(d.get("params") or {})
    if c == "NumpyArray":
        t = ("prim", d["dtype"], p)
        for s in reversed(d["shape"][1:]):
            t = ("regular", t, s, {})
        return t
    if c == "EmptyArray":
        return ("unknown", p)
    if c == "RegularArray":
        return ("regular", typeof(d["content"]), d["size"], p)
    if c in ("ListArray", "ListOffsetArray"):
        return ("list", typeof(d["content"]), p)
    if c == "IndexedArray":
        t = typeof(d["content"])
        tp = dict(t[-1])
        if not tp and p:
            tp = dict(p)
            if p.get("__array__") == "\"categorical\"":
                tp.pop("__array__", None)            # setparameter(key, "null") removes the parameter
                tp["__categorical__"] = "true"
        elif tp and p:
            for k, v in p.items():
                if k != "__array__":
                    tp[k] = v
            if p.get("__array__") == "\"categorical\"":
                tp["__categorical__"] = "true"
        return t[:-1] + (tp,)
    if c in OPTION:
        tp = dict(p)
        if c == "IndexedOptionArray" and p.get("__array__") == "\"categorical\"":
            tp.pop("__array__", None)
            tp["__categorical__"] = "true"
        return ("option", typeof(d["content"]), tp)
    if c == "RecordArray":
        return ("record", [typeof(x) for x in d["contents"]], d["keys"], p)
    if c == "UnionArray":
        return ("union", [typeof(x) for x in d["contents"]], p)
    raise ValueError(c)


def _params_empty(p):
    return not p or (len(p) == 1 and p.get("__categorical__") == "true")


def _string_params(p):
    return "parameters={" + ", ".join("%s: %s" % (json.dumps(k, ensure_ascii=False), p[k])
                                       for k in sorted(p) if k != "__categorical__") + "}"


def _wrapcat(p, s):
    return "categorical[type=" + s + "]" if p.get("__categorical__") == "true" else s


def _isname(text):
    # util::parameter_isname: a JSON string that is an identifier
    try:
        s = json.loads(text)
    except ValueError:
        return None
    if not isinstance(s, str) or not s:
        return None
    if not (s[0].isalpha() or s[0] == "_"):
        return None
    if not all(ch.isalnum() or ch == "_" for ch in s):
        return None
    return s


def render(t):
    k = t[0]
    p = t[-1]
    if k == "prim":
        s = t[1] if _params_empty(p) else "%s[%s]" % (t[1], _string_params(p))
        return _wrapcat(p, s)
    if k == "unknown":
        return _wrapcat(p, "unknown" if _params_empty(p) else "unknown[%s]" % _string_params(p))
    if k == "list":
        inner = render(t[1])
        return _wrapcat(p, "var * " + inner if _params_empty(p) else "[var * %s, %s]" % (inner, _string_params(p)))
    if k == "regular":
        inner = render(t[1])
        return _wrapcat(p, "%d * %s" % (t[2], inner) if _params_empty(p)
                        else "[%d * %s, %s]" % (t[2], inner, _string_params(p)))
    if k == "option":
        inner = render(t[1])
        if _params_empty(p):
            s = "option[%s]" % inner if t[1][0] in ("list", "regular") else "?" + inner
        else:
            s = "option[%s, %s]" % (inner, _string_params(p))
        return _wrapcat(p, s)
    if k == "union":
        s = "union[" + ", ".join(render(x) for x in t[1])
        if not _params_empty(p):
            s += ", " + _string_params(p)
        return _wrapcat(p, s + "]")
    if k == "record":
        types, keys = t[1], t[2]
        if len(p) == 1 and "__record__" in p:
            name = _isname(p["__record__"])
            if name is not None and name not in DATASHAPE_KEYWORDS:
                parts = []
                for j, x in enumerate(types):
                    parts.append((json.dumps(keys[j], ensure_ascii=False) + ": " if keys is not None else "") + render(x))
                return _wrapcat(p, name + "[" + ", ".join(parts) + "]")
        if _params_empty(p):
            if keys is not None:
                s = "{" + ", ".join("%s: %s" % (json.dumps(kk, ensure_ascii=False), render(x))
                                    for kk, x in zip(keys, types)) + "}"
            else:
                s = "(" + ", ".join(render(x) for x in types) + ")"
        else:
            if keys is not None:
                s = "struct[[" + ", ".join(json.dumps(kk, ensure_ascii=False) for kk in keys) + "], [" + \
                    ", ".join(render(x) for x in types) + "], " + _string_params(p) + "]"
            else:
                s = "tuple[[" + ", ".join(render(x) for x in types) + "], " + _string_params(p) + "]"
        return _wrapcat(p, s)
    raise ValueError(k)


def typestr(d):
    return render(typeof(d))


def purelist_depth(t):
    k = t[0]
    if k in ("prim", "unknown"):
        return 1
    if k in ("list", "regular"):
        if k == "list" and t[-1].get("__array__") in ("\"string\"", "\"bytestring\""):
            return 1
        if k == "regular" and t[-1].get("__array__") in ("\"string\"", "\"bytestring\""):
            return 1
        return 1 + purelist_depth(t[1])
    if k == "option":
        return purelist_depth(t[1])
    if k == "record":
        return 1
    if k == "union":
        ds = set(purelist_depth(x) for x in t[1])
        return ds.pop() if len(ds) == 1 else -1
    raise ValueError(k)


def minmax_depth(t):
    k = t[0]
    if k in ("prim", "unknown"):
        return (1, 1)
    if k in ("list", "regular"):
        if t[-1].get("__array__") in ("\"string\"", "\"bytestring\""):
            return (1, 1)
        a, b = minmax_depth(t[1])
        return (a + 1, b + 1)
    if k == "option":
        return minmax_depth(t[1])
    if k in ("record", "union"):
        if not t[1]:
            return (0, 0)
        ds = [minmax_depth(x) for x in t[1]]
        return (min(x[0] for x in ds), max(x[1] for x in ds))
    raise ValueError(k)


def is_regular(t):
    """purelist_isregular: no var-length list before the first non-list"""
    k = t[0]
    if k == "list":
        return False
    if k == "regular":
        return is_regular(t[1])
    if k == "option":
        return is_regular(t[1])
    if k == "union":
        return all(is_regular(x) for x in t[1])
    return True


def leaf_depths(t):
    """depths (number of list levels, counting the leaf as 1) of every leaf reachable through records/unions"""
    k = t[0]
    if k in ("prim", "unknown"):
        return [1]
    if k in ("list", "regular"):
        if t[-1].get("__array__") in ("\"string\"", "\"bytestring\""):
            return [1]
        return [d + 1 for d in leaf_depths(t[1])]
    if k == "option":
        return leaf_depths(t[1])
    if k in ("record", "union"):
        out = []
        for x in t[1]:
            out.extend(leaf_depths(x))
        return out or [1]
    raise ValueError(k)


def branch_depth(t):
    """(do leaves sit at different depths?, minimum depth) - the meaning of Content::branch_depth"""
    ds = leaf_depths(t)
    return (len(set(ds)) > 1, min(ds))
