"""Helpers for checks that drive the repository's Python layer (lane P, vlib/lanep.py + akext/).

    ak, P = lanep_util.setup(ctx)     # once per worker
    layout = P.layout(descriptor)     # ak.layout.* object built by the C++ constructors (as in lane L)
    value  = P.value(x)               # model value of an ak.Array / ak.Record / layout / scalar, read through the
                                      # bridge's structural dump (never through ak.to_list)
"""
from __future__ import print_function

import json
import os

from vlib import model, bridge_virtual


class _H(object):
    """a borrowed handle (not freed here)"""
    __slots__ = ("p",)

    def __init__(self, p):
        self.p = p


class P(object):
    def __init__(self, ak, b):
        self.ak, self.b = ak, b
        bridge_virtual.declare(b.L)
        from akext import content
        self._content = content

    def layout(self, d):
        h = self.b.build(d)
        p = self.b.L.akb_box_copy(h.p)
        if not p:
            self.b._raise()
        return self._content._share(p)

    def array(self, d, **kw):
        return self.ak.Array(self.layout(d), **kw)

    def describe(self, layout):
        return json.loads(self.b.describe_text(_H(layout._h)))

    def value(self, x):
        ak = self.ak
        if isinstance(x, (ak.Array, ak.Record)):
            x = x.layout
        if isinstance(x, ak.partition.PartitionedArray):
            out = []
            for p in x.partitions:
                out.extend(self.value(p))
            return out
        if hasattr(x, "_h"):
            d = self.describe(x)
            if '"c": "VirtualArray"' in json.dumps(d):
                m = bridge_virtual.materialize(self.b, _H(x._h))
                d = self.b.describe(m)
            return model.value(d)
        return scalar(x)

    def typestr(self, x):
        return str(self.ak.type(x))


def scalar(x):
    import numpy as np
    if isinstance(x, np.generic):
        if x.dtype.kind in "Mm":
            return model.timeval(x) if hasattr(model, "timeval") else str(x)
        return x.item()
    return x


_cache = {}


def setup(ctx):
    key = ctx.builddir
    if key not in _cache:
        os.environ["LANEP_BUILDDIR"] = ctx.builddir
        from vlib import lanep
        ak = lanep.load(ctx.variant)
        _cache[key] = (ak, P(ak, ctx.lib))
    return _cache[key]
