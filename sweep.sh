#!/bin/sh
# developer helper: sweep seeds for some checks, print only summary / violation lines
# usage: sweep.sh "C02 C11 C12" "1 2 3 4 5"
for c in $1; do for s in $2; do
  timeout 900 ./check $c --tier quick --seed $s > /tmp/sweep.$c.$s.out 2>&1
  grep -E "^(VIOLATION|INCONCLUSIVE|$c tier)" /tmp/sweep.$c.$s.out | cut -c1-420
done; done
